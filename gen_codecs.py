# Codec table for gen_harness.py (executed with `codec`, MARKER_NONE, MARKER_LAST injected).

# ---------------------------------------------------------------- H264
codec("rtph264", "H264", kind="units", enc_extra=", PacketizationMode: 1", dec_fields="PacketizationMode: 1",
      imports='\t"github.com/bluenviron/mediacommon/v2/pkg/codecs/h264"\n',
      mlo=3, mhi=12, mlo03=3, mhi03=8, mhi07=6, p06=14, p03=12, p07=8, p08=8, k08=2, cap="h264.MaxAccessUnitSize",
      valid='''
// valid H264 NALU: forbidden_zero_bit clear, type not an aggregation or
// fragmentation type, no start code (00 00 01) inside — real NALUs satisfy
// this by emulation prevention.
func zzNALU(name string, maxLen int) []byte {
	b := zzBytes(name, 1, maxLen)
	typ := b[0] & 0x1F
	zzAssume(zzOr(typ < 24, typ > 29))
	zzAssume(b[0]&0x80 == 0)
	ok := true
	for i := 0; i+2 < maxLen; i++ {
		bad := zzAnd(zzAnd(zzAt(b, i) == 0, zzAt(b, i+1) == 0), zzAt(b, i+2) <= 1)
		ok = zzAnd(ok, zzImplies(i+2 < len(b), !bad))
	}
	zzAssume(ok)
	return b
}

func zzValidFrame(name string, P int) zzFrameT {
	n := zzConcretize(zzIntIn("nunits", 1, zzParam("N", 2)))
	f := make([][]byte, n)
	for i := range f {
		f[i] = zzNALU(name, P)
	}
	return f
}
''',
      state='''
// arbitrary state: pending FU-A fragments (header byte + data) and a pending
// access unit, with the accounting fields consistent.
func zzState() *Decoder {
	d := &Decoder{PacketizationMode: 1}
	d.firstPacketReceived = zzBool("first")
	if zzBool("hasfrag") {
		h := zzBytes("fraghdr", 1, 1)
		f := zzBytes("frag", 0, 3)
		d.fragments = [][]byte{h, f}
		d.fragmentsSize = 1 + len(f)
		zzAssume(d.firstPacketReceived)
	}
	d.fragmentNextSeqNum = zzU16("nextseq")
	// buffered units of an unterminated access unit: none, one, or a count at /
	// just below the documented maximum (left behind by lost marker packets)
	switch zzConcretize(zzIntIn("nbuf", zzParam("NBUFLO", 0), zzParam("NBUF", 3))) {
	case 1:
		u := zzBytes("bufnalu", 1, 3)
		d.frameBuffer = [][]byte{u}
		d.frameBufferSize = len(u)
	case 2:
		zzFillFrameBuffer(d, h264.MaxNALUsPerAccessUnit-1)
	case 3:
		zzFillFrameBuffer(d, h264.MaxNALUsPerAccessUnit)
	}
	d.frameBufferLen = len(d.frameBuffer)
	if d.frameBufferLen > 0 {
		d.frameBufferTimestamp = zzU32("bufts")
	}
	return d
}

func zzFillFrameBuffer(d *Decoder, n int) {
	for i := 0; i < n; i++ {
		u := zzBytes("bufnalu", 1, 1)
		d.frameBuffer = append(d.frameBuffer, u)
		d.frameBufferSize += len(u)
	}
}
''',
      inv='''
func zzInv(d *Decoder) bool {
	n := 0
	for _, f := range d.fragments {
		n += len(f)
	}
	m := 0
	for _, f := range d.frameBuffer {
		m += len(f)
	}
	ok := zzAnd(n == d.fragmentsSize, d.fragmentsSize <= h264.MaxAccessUnitSize)
	ok = zzAnd(ok, zzAnd(m == d.frameBufferSize, d.frameBufferSize <= h264.MaxAccessUnitSize))
	ok = zzAnd(ok, zzAnd(len(d.frameBuffer) == d.frameBufferLen, d.frameBufferLen <= h264.MaxNALUsPerAccessUnit))
	return ok
}
''',
      gen=("C06", "C06D", "C03", "C08H"),
      imports_api='\t"github.com/bluenviron/mediacommon/v2/pkg/codecs/h264"\n',
      extra_api='\n// C08 (unit-count cap on every path): a single NALU, then an aggregation packet\n// carrying n one-byte NALUs with n around the documented maximum, then a single\n// NALU - with arbitrary markers and timestamps, so that both the marker path and\n// the timestamp-split path are taken: no returned access unit holds more units\n// than the documented maximum.\nfunc ZzC08H264Count() {\n\td := zzDecoder()\n\tn := zzConcretize(zzIntIn("nnalus", h264.MaxNALUsPerAccessUnit-1, h264.MaxNALUsPerAccessUnit+2))\n\tstap := []byte{24}\n\tfor i := 0; i < n; i++ {\n\t\tstap = append(stap, 0, 1, 0x41)\n\t}\n\tseq := zzU16("seq")\n\tpls := [][]byte{{0x41}, stap, {0x41}}\n\tfor k, pl := range pls {\n\t\tp := &rtp.Packet{Header: rtp.Header{SequenceNumber: seq + uint16(k), Timestamp: zzU32("ts"), Marker: zzBool("marker")}, Payload: pl}\n\t\tout, err := d.Decode(p)\n\t\tif err == nil {\n\t\t\tzzAssert(len(out) <= h264.MaxNALUsPerAccessUnit, "returned access unit holds at most the documented number of units")\n\t\t}\n\t\tzzCover("returned", err == nil)\n\t}\n}\n',
      extra='''
// C07 for H264. The decoder also splits access units by timestamp (cameras that
// never set the marker), so an access unit may legitimately be handed over one
// step late: at the first packet of the following access unit. The obligation is
// therefore: from ANY decoder state, after an intact A, an intact B is returned
// intact exactly once while B's packets and the first packet of C are processed,
// and nothing else than "more packets needed" or the late A is seen meanwhile.
func ZzC07H264() {
	P := zzParam("P", 8)
	max := zzConcretize(zzIntIn("max", zzParam("MLO", 3), zzParam("MHI", 6)))
	d := zzState()
	e := zzEncoder(max, zzU16("seq0"), 0x11223344, 96)
	a := zzValidFrame("frameA", P)
	pa, _ := e.Encode(a)
	tsA := zzU32("tsA")
	zzAssume(zzOr(d.frameBuffer == nil, tsA != d.frameBufferTimestamp))
	for _, p := range pa {
		p.Timestamp = tsA
		d.Decode(p)
	}
	b := zzValidFrame("frameB", P)
	zzAssume(a[0][0] != b[0][0]) // tell A and B apart
	pb, _ := e.Encode(b)
	tsB := zzU32("tsB")
	zzAssume(tsB != tsA)
	c := zzValidFrame("frameC", 2)
	zzAssume(c[0][0] != b[0][0])
	pc, _ := e.Encode(c)
	tsC := zzU32("tsC")
	zzAssume(tsC != tsB)
	gotB := 0
	step := func(p *rtp.Packet, ts uint32) {
		p.Timestamp = ts
		out, err := d.Decode(p)
		if err != nil {
			zzAssert(err == ErrMorePacketsNeeded, "B: only 'more packets needed' while B is being received")
			return
		}
		if zzFrameEqB(out, b) {
			gotB++
		} else {
			zzAssert(zzFrameEqB(out, a), "B: the only other frame seen is the late A")
		}
	}
	for _, p := range pb {
		step(p, tsB)
	}
	if gotB == 0 {
		step(pc[0], tsC)
	}
	zzAssert(gotB == 1, "B: returned intact exactly once, no later than the first packet of C")
	zzCover("B fragmented", len(pb) > 1)
	zzCover("B single packet", len(pb) == 1)
}

// C08 (inductive step at the REAL caps): arbitrary pre-state whose accumulators
// hold up to the documented maximum (length-only buffers), one arbitrary small
// packet: returned frame within the maximum, accounting invariant re-established.
func ZzC08H264Ind() {
	P := zzParam("PI", 6)
	d := zzDecoder()
	d.firstPacketReceived = zzBool("first")
	if zzBool("hasfrag") {
		h := zzBytes("fraghdr", 1, 1)
		f := zzBytesLO("frag", 0, h264.MaxAccessUnitSize-1)
		d.fragments = [][]byte{h, f}
		d.fragmentsSize = 1 + len(f)
	}
	d.fragmentNextSeqNum = zzU16("nextseq")
	if zzBool("hasframe") {
		u := zzBytesLO("bufnalu", 1, h264.MaxAccessUnitSize)
		d.frameBuffer = [][]byte{u}
		d.frameBufferLen = 1
		d.frameBufferSize = len(u)
	}
	pkt := &rtp.Packet{Header: rtp.Header{SequenceNumber: zzU16("seq"), Timestamp: zzU32("ts"), Marker: zzBool("marker")},
		Payload: zzBytes("payload", 0, P)}
	out, err := d.Decode(pkt)
	if err == nil {
		zzAssert(zzFrameSize(out) <= h264.MaxAccessUnitSize, "returned frame <= documented maximum")
	}
	zzAssert(zzInv(d), "retained bytes accounted and within the documented maximum")
	zzCover("frame returned", err == nil)
	zzCover("error returned", err != nil)
}
''')

# ---------------------------------------------------------------- H265
codec("rtph265", "H265", kind="units",
      imports='\t"github.com/bluenviron/mediacommon/v2/pkg/codecs/h265"\n',
      mlo=4, mhi=12, mlo03=4, mhi03=9, mhi07=7, p06=14, p03=12, p07=8, p08=8, k08=2, cap="h265.MaxAccessUnitSize",
      frame06='zzRawFrame2("frame", P)',
      imports_api='\t"github.com/bluenviron/mediacommon/v2/pkg/codecs/h265"\n',
      extra_api='\n// C08 (unit-count cap on every path), as for H264: aggregation packet (type 48)\n// with n two-byte NALUs, n around the documented maximum.\nfunc ZzC08H265Count() {\n\td := zzDecoder()\n\tn := zzConcretize(zzIntIn("nnalus", h265.MaxNALUsPerAccessUnit-1, h265.MaxNALUsPerAccessUnit+2))\n\tap := []byte{48 << 1, 1}\n\tfor i := 0; i < n; i++ {\n\t\tap = append(ap, 0, 2, 0x02, 0x01)\n\t}\n\tseq := zzU16("seq")\n\tpls := [][]byte{{0x02, 0x01}, ap, {0x02, 0x01}}\n\tfor k, pl := range pls {\n\t\tp := &rtp.Packet{Header: rtp.Header{SequenceNumber: seq + uint16(k), Timestamp: zzU32("ts"), Marker: zzBool("marker")}, Payload: pl}\n\t\tout, err := d.Decode(p)\n\t\tif err == nil {\n\t\t\tzzAssert(len(out) <= h265.MaxNALUsPerAccessUnit, "returned access unit holds at most the documented number of units")\n\t\t}\n\t\tzzCover("returned", err == nil)\n\t}\n}\n',
      valid='''
func zzRawFrame2(name string, P int) zzFrameT {
	n := zzConcretize(zzIntIn("nunits", 1, zzParam("N", 2)))
	f := make([][]byte, n)
	for i := range f {
		f[i] = zzBytes(name, 2, P) // H265 NALUs have a 2-byte header
	}
	return f
}

// valid H265 NALU: 2-byte header, type not AP / FU / PACI, no start code inside.
func zzNALU(name string, maxLen int) []byte {
	b := zzBytes(name, 2, maxLen)
	typ := (b[0] >> 1) & 0x3F
	zzAssume(zzOr(typ < 48, typ > 50))
	ok := true
	for i := 0; i+2 < maxLen; i++ {
		bad := zzAnd(zzAnd(zzAt(b, i) == 0, zzAt(b, i+1) == 0), zzAt(b, i+2) <= 1)
		ok = zzAnd(ok, zzImplies(i+2 < len(b), !bad))
	}
	zzAssume(ok)
	return b
}

func zzValidFrame(name string, P int) zzFrameT {
	n := zzConcretize(zzIntIn("nunits", 1, zzParam("N", 2)))
	f := make([][]byte, n)
	for i := range f {
		f[i] = zzNALU(name, P)
	}
	return f
}
''',
      state='''
func zzState() *Decoder {
	d := &Decoder{}
	d.firstPacketReceived = zzBool("first")
	if zzBool("hasfrag") {
		h := zzBytes("fraghdr", 2, 2)
		f := zzBytes("frag", 0, 3)
		d.fragments = [][]byte{h, f}
		d.fragmentsSize = 2 + len(f)
		zzAssume(d.firstPacketReceived)
	}
	d.fragmentNextSeqNum = zzU16("nextseq")
	// buffered units of an unterminated access unit: none, one, or a count at /
	// just below the documented maximum (left behind by lost marker packets)
	switch zzConcretize(zzIntIn("nbuf", zzParam("NBUFLO", 0), zzParam("NBUF", 3))) {
	case 1:
		u := zzBytes("bufnalu", 2, 3)
		d.frameBuffer = [][]byte{u}
		d.frameBufferSize = len(u)
	case 2:
		zzFillFrameBuffer(d, h265.MaxNALUsPerAccessUnit-1)
	case 3:
		zzFillFrameBuffer(d, h265.MaxNALUsPerAccessUnit)
	}
	d.frameBufferLen = len(d.frameBuffer)
	return d
}

func zzFillFrameBuffer(d *Decoder, n int) {
	for i := 0; i < n; i++ {
		u := zzBytes("bufnalu", 2, 2)
		d.frameBuffer = append(d.frameBuffer, u)
		d.frameBufferSize += len(u)
	}
}
''',
      inv='''
func zzInv(d *Decoder) bool {
	n := 0
	for _, f := range d.fragments {
		n += len(f)
	}
	m := 0
	for _, f := range d.frameBuffer {
		m += len(f)
	}
	ok := zzAnd(n == d.fragmentsSize, d.fragmentsSize <= h265.MaxAccessUnitSize)
	ok = zzAnd(ok, zzAnd(m == d.frameBufferSize, d.frameBufferSize <= h265.MaxAccessUnitSize))
	ok = zzAnd(ok, zzAnd(len(d.frameBuffer) == d.frameBufferLen, d.frameBufferLen <= h265.MaxNALUsPerAccessUnit))
	return ok
}
''',
      extra='''
// C08 (inductive step at the REAL caps): arbitrary pre-state whose accumulators
// hold up to the documented maximum (length-only buffers), one arbitrary small
// packet: returned frame within the maximum, accounting invariant re-established.
func ZzC08H265Ind() {
	P := zzParam("PI", 6)
	d := zzDecoder()
	d.firstPacketReceived = zzBool("first")
	if zzBool("hasfrag") {
		h := zzBytes("fraghdr", 2, 2)
		f := zzBytesLO("frag", 0, h265.MaxAccessUnitSize-2)
		d.fragments = [][]byte{h, f}
		d.fragmentsSize = 2 + len(f)
	}
	d.fragmentNextSeqNum = zzU16("nextseq")
	if zzBool("hasframe") {
		u := zzBytesLO("bufnalu", 1, h265.MaxAccessUnitSize)
		d.frameBuffer = [][]byte{u}
		d.frameBufferLen = 1
		d.frameBufferSize = len(u)
	}
	pkt := &rtp.Packet{Header: rtp.Header{SequenceNumber: zzU16("seq"), Timestamp: zzU32("ts"), Marker: zzBool("marker")},
		Payload: zzBytes("payload", 0, P)}
	out, err := d.Decode(pkt)
	if err == nil {
		zzAssert(zzFrameSize(out) <= h265.MaxAccessUnitSize, "returned frame <= documented maximum")
	}
	zzAssert(zzInv(d), "retained bytes accounted and within the documented maximum")
	zzCover("frame returned", err == nil)
	zzCover("error returned", err != nil)
}
''')

# ---------------------------------------------------------------- AV1
codec("rtpav1", "AV1", kind="units",
      imports='\t"github.com/bluenviron/mediacommon/v2/pkg/codecs/av1"\n',
      mlo=3, mhi=12, mlo03=4, mhi03=9, mhi07=7, p06=14, p03=12, p07=8, p08=8, k08=2, cap="av1.MaxTemporalUnitSize",
      valid='''
func zzValidFrame(name string, P int) zzFrameT {
	n := zzConcretize(zzIntIn("nunits", 1, zzParam("N", 2)))
	f := make([][]byte, n)
	for i := range f {
		f[i] = zzBytes(name, 1, P)
	}
	return f
}
''',
      state='''
func zzState() *Decoder {
	d := &Decoder{}
	d.firstPacketReceived = zzBool("first")
	if zzBool("hasfrag") {
		f := zzBytes("frag", 1, 3)
		d.fragments = [][]byte{f}
		d.fragmentsSize = len(f)
	}
	d.fragmentNextSeqNum = zzU16("nextseq")
	switch zzConcretize(zzIntIn("nbuf", zzParam("NBUFLO", 0), zzParam("NBUF", 3))) {
	case 1:
		u := zzBytes("bufobu", 1, 3)
		d.frameBuffer = [][]byte{u}
		d.frameBufferSize = len(u)
	case 2:
		zzFillFrameBuffer(d, av1.MaxOBUsPerTemporalUnit-1)
	case 3:
		zzFillFrameBuffer(d, av1.MaxOBUsPerTemporalUnit)
	}
	d.frameBufferLen = len(d.frameBuffer)
	return d
}

func zzFillFrameBuffer(d *Decoder, n int) {
	for i := 0; i < n; i++ {
		u := zzBytes("bufobu", 1, 1)
		d.frameBuffer = append(d.frameBuffer, u)
		d.frameBufferSize += len(u)
	}
}
''',
      inv='''
func zzInv(d *Decoder) bool {
	n := 0
	for _, f := range d.fragments {
		n += len(f)
	}
	m := 0
	for _, f := range d.frameBuffer {
		m += len(f)
	}
	ok := zzAnd(n == d.fragmentsSize, d.fragmentsSize <= av1.MaxTemporalUnitSize)
	ok = zzAnd(ok, zzAnd(m == d.frameBufferSize, d.frameBufferSize <= av1.MaxTemporalUnitSize))
	ok = zzAnd(ok, zzAnd(len(d.frameBuffer) == d.frameBufferLen, d.frameBufferLen <= av1.MaxOBUsPerTemporalUnit))
	return ok
}
''',
      extra='''
// C08 (inductive step at the REAL caps): arbitrary pre-state whose accumulators
// hold up to the documented maximum (length-only buffers), one arbitrary small
// packet: returned frame within the maximum, accounting invariant re-established.
func ZzC08AV1Ind() {
	P := zzParam("PI", 6)
	d := &Decoder{firstPacketReceived: zzBool("first")}
	if zzBool("hasfrag") {
		f := zzBytesLO("frag", 1, av1.MaxTemporalUnitSize)
		d.fragments = [][]byte{f}
		d.fragmentsSize = len(f)
	}
	d.fragmentNextSeqNum = zzU16("nextseq")
	if zzBool("hasframe") {
		u := zzBytesLO("bufobu", 1, av1.MaxTemporalUnitSize)
		d.frameBuffer = [][]byte{u}
		d.frameBufferLen = 1
		d.frameBufferSize = len(u)
	}
	pkt := &rtp.Packet{Header: rtp.Header{SequenceNumber: zzU16("seq"), Timestamp: zzU32("ts"), Marker: zzBool("marker")},
		Payload: zzBytes("payload", 0, P)}
	out, err := d.Decode(pkt)
	if err == nil {
		zzAssert(zzFrameSize(out) <= av1.MaxTemporalUnitSize, "returned frame <= documented maximum")
	}
	zzAssert(zzInv(d), "retained bytes accounted and within the documented maximum")
	zzCover("frame returned", err == nil)
	zzCover("error returned", err != nil)
}
''')

# ---------------------------------------------------------------- VP8
codec("rtpvp8", "VP8",
      imports='\t"github.com/bluenviron/mediacommon/v2/pkg/codecs/vp8"\n',
      mlo=2, mhi=12, mlo03=2, mhi03=8, mhi07=6, p06=16, p03=14, p07=8, p08=8, k08=2, cap="vp8.MaxFrameSize",
      valid='''
func zzValidFrame(name string, P int) zzFrameT { return zzBytes(name, 1, P) }
''',
      state='''
func zzState() *Decoder {
	d := &Decoder{}
	d.firstPacketReceived = zzBool("first")
	nf := zzConcretize(zzIntIn("nfrag", 0, 2))
	for i := 0; i < nf; i++ {
		f := zzBytes("frag", 1, 3)
		d.frameBuffer = append(d.frameBuffer, f)
		d.frameBufferSize += len(f)
	}
	d.frameNextSeqNum = zzU16("nextseq")
	return d
}
''',
      inv='''
func zzInv(d *Decoder) bool {
	n := 0
	for _, f := range d.frameBuffer {
		n += len(f)
	}
	return zzAnd(n == d.frameBufferSize, d.frameBufferSize <= vp8.MaxFrameSize)
}
''',
      extra='''
// C08 (inductive step at the REAL caps): arbitrary pre-state whose accumulators
// hold up to the documented maximum (length-only buffers), one arbitrary small
// packet: returned frame within the maximum, accounting invariant re-established.
func ZzC08VP8Ind() {
	P := zzParam("PI", 6)
	d := &Decoder{firstPacketReceived: zzBool("first")}
	nf := zzConcretize(zzIntIn("nfrag", 0, 2))
	for i := 0; i < nf; i++ {
		f := zzBytesLO("frag", 1, vp8.MaxFrameSize)
		d.frameBuffer = append(d.frameBuffer, f)
		d.frameBufferSize += len(f)
	}
	zzAssume(d.frameBufferSize <= vp8.MaxFrameSize)
	d.frameNextSeqNum = zzU16("nextseq")
	pkt := &rtp.Packet{Header: rtp.Header{SequenceNumber: zzU16("seq"), Timestamp: zzU32("ts"), Marker: zzBool("marker")},
		Payload: zzBytes("payload", 0, P)}
	out, err := d.Decode(pkt)
	if err == nil {
		zzAssert(zzFrameSize(out) <= vp8.MaxFrameSize, "returned frame <= documented maximum")
	}
	zzAssert(zzInv(d), "retained bytes accounted and within the documented maximum")
	zzCover("frame returned", err == nil)
	zzCover("error returned", err != nil)
}
''')

# ---------------------------------------------------------------- VP9
codec("rtpvp9", "VP9",
      imports='\t"github.com/bluenviron/mediacommon/v2/pkg/codecs/vp9"\n',
      enc_extra=", InitialPictureID: zzPicID()",
      mlo=12, mhi=18, mlo03=12, mhi03=16, mhi07=14, p06=18, p03=16, p07=14, p08=8, k08=2, cap="vp9.MaxFrameSize",
      frame06='zzValidFrame("frame", P)', frame06d='zzValidFrameLO("frame", L)',
      valid='''
// same validity on a length-only buffer (only the header bytes are constrained)
func zzValidFrameLO(name string, L int) zzFrameT {
	b := zzBytesLO(name, 10, L)
	if zzBool("keyframe") {
		zzAssume(b[0]&0xFC == 0x80)
		zzAssume(b[1] == 0x49)
		zzAssume(b[2] == 0x83)
		zzAssume(b[3] == 0x42)
	} else {
		zzAssume(b[0]&0xFC == 0x84)
	}
	return b
}

func zzPicID() *uint16 {
	v := zzU16("picid")
	return &v
}

// The packetizer (pion) parses the VP9 uncompressed header and emits nothing
// for a frame whose header it cannot parse, so "valid frame" means: frame
// marker 2, profile 0, not show-existing; either a non-key frame, or a key
// frame with the sync code and room for colour config and frame size.
func zzValidFrame(name string, P int) zzFrameT {
	b := zzBytes(name, 1, P)
	if zzBool("keyframe") {
		zzAssume(len(b) >= 10)
		zzAssume(b[0]&0xFC == 0x80)
		zzAssume(b[1] == 0x49)
		zzAssume(b[2] == 0x83)
		zzAssume(b[3] == 0x42)
	} else {
		zzAssume(b[0]&0xFC == 0x84)
	}
	return b
}
''',
      state='''
func zzState() *Decoder {
	d := &Decoder{}
	d.firstPacketReceived = zzBool("first")
	nf := zzConcretize(zzIntIn("nfrag", 0, 2))
	for i := 0; i < nf; i++ {
		f := zzBytes("frag", 1, 3)
		d.fragments = append(d.fragments, f)
		d.fragmentsSize += len(f)
	}
	d.fragmentNextSeqNum = zzU16("nextseq")
	return d
}
''',
      inv='''
func zzInv(d *Decoder) bool {
	n := 0
	for _, f := range d.fragments {
		n += len(f)
	}
	return zzAnd(n == d.fragmentsSize, d.fragmentsSize <= vp9.MaxFrameSize)
}
''',
      extra='''
// C08 (inductive step at the REAL caps): arbitrary pre-state whose accumulators
// hold up to the documented maximum (length-only buffers), one arbitrary small
// packet: returned frame within the maximum, accounting invariant re-established.
func ZzC08VP9Ind() {
	P := zzParam("PI", 6)
	d := &Decoder{firstPacketReceived: zzBool("first")}
	nf := zzConcretize(zzIntIn("nfrag", 0, 2))
	for i := 0; i < nf; i++ {
		f := zzBytesLO("frag", 1, vp9.MaxFrameSize)
		d.fragments = append(d.fragments, f)
		d.fragmentsSize += len(f)
	}
	zzAssume(d.fragmentsSize <= vp9.MaxFrameSize)
	d.fragmentNextSeqNum = zzU16("nextseq")
	pkt := &rtp.Packet{Header: rtp.Header{SequenceNumber: zzU16("seq"), Timestamp: zzU32("ts"), Marker: zzBool("marker")},
		Payload: zzBytes("payload", 0, P)}
	out, err := d.Decode(pkt)
	if err == nil {
		zzAssert(zzFrameSize(out) <= vp9.MaxFrameSize, "returned frame <= documented maximum")
	}
	zzAssert(zzInv(d), "retained bytes accounted and within the documented maximum")
	zzCover("frame returned", err == nil)
	zzCover("error returned", err != nil)
}
''')

# ---------------------------------------------------------------- MPEG-1 video
codec("rtpmpeg1video", "MPEG1Video", enc_pt="", pt_expect="32", gen=("C06", "C03", "C07", "C08H"),
      mlo=5, mhi=12, mlo03=5, mhi03=10, mhi07=8, p06=10, p03=10, p07=8, p08=8, k08=2, cap="maxFrameSize",
      frame06='zzValidFrame("frame", P)',
      valid='''
// one slice: start code 00 00 01 + type byte + body, no further start code
// inside; a picture header (type 00) needs at least 6 bytes.
func zzSlice(name string, P int) []byte {
	s := zzBytes(name, 4, P)
	zzAssume(s[0] == 0)
	zzAssume(s[1] == 0)
	zzAssume(s[2] == 1)
	zzAssume(zzOr(s[3] != 0, len(s) >= 6))
	ok := true
	for i := 1; i+2 < P; i++ {
		bad := zzAnd(zzAnd(zzAt(s, i) == 0, zzAt(s, i+1) == 0), zzAt(s, i+2) == 1)
		ok = zzAnd(ok, zzImplies(i+2 < len(s), !bad))
	}
	zzAssume(ok)
	// slice lengths are case-split: a frame is the concatenation of its slices, and
	// symbolic offsets inside the frame are what makes the queries slow
	return s[:zzConcretize(len(s))]
}

// a frame = 1..N slices back to back
func zzValidFrame(name string, P int) zzFrameT {
	n := zzConcretize(zzIntIn("nslices", 1, zzParam("N", 2)))
	var f []byte
	for i := 0; i < n; i++ {
		f = append(f, zzSlice(name, P)...)
	}
	return f
}
''',
      state='''
func zzState() *Decoder {
	d := &Decoder{}
	nf := zzConcretize(zzIntIn("nfrag", 0, 2))
	for i := 0; i < nf; i++ {
		f := zzBytes("frag", 1, 3)
		d.fragments = append(d.fragments, f)
		d.fragmentsSize += len(f)
	}
	d.fragmentNextSeqNum = zzU16("nextseq")
	if zzBool("hasslice") {
		u := zzBytes("bufslice", 1, 3)
		d.sliceBuffer = [][]byte{u}
		d.sliceBufferSize = len(u)
	}
	return d
}
''',
      inv='''
func zzInv(d *Decoder) bool {
	n := 0
	for _, f := range d.fragments {
		n += len(f)
	}
	m := 0
	for _, f := range d.sliceBuffer {
		m += len(f)
	}
	return zzAnd(zzAnd(n == d.fragmentsSize, d.fragmentsSize <= maxFrameSize), zzAnd(m == d.sliceBufferSize, d.sliceBufferSize <= maxFrameSize))
}
''',
      extra='''
// C08 (inductive step at the real cap). The packet carries no marker: frame
// assembly (join + validateFrame over megabytes of unknown content) is beyond
// the solver; the accumulation paths, which are what can grow, are all covered.
func ZzC08MPEG1VideoInd() {
	P := zzParam("PI", 8)
	d := &Decoder{}
	nf := zzConcretize(zzIntIn("nfrag", 0, 2))
	for i := 0; i < nf; i++ {
		f := zzBytesLO("frag", 1, maxFrameSize)
		d.fragments = append(d.fragments, f)
		d.fragmentsSize += len(f)
	}
	zzAssume(d.fragmentsSize <= maxFrameSize)
	d.fragmentNextSeqNum = zzU16("nextseq")
	if zzBool("hasslice") {
		u := zzBytesLO("bufslice", 1, maxFrameSize)
		d.sliceBuffer = [][]byte{u}
		d.sliceBufferSize = len(u)
	}
	pkt := &rtp.Packet{Header: rtp.Header{SequenceNumber: zzU16("seq"), Timestamp: zzU32("ts"), Marker: false},
		Payload: zzBytes("payload", 0, P)}
	out, err := d.Decode(pkt)
	if err == nil {
		zzAssert(len(out) <= maxFrameSize, "returned frame <= documented maximum")
	}
	zzAssert(zzInv(d), "retained bytes accounted and within the documented maximum")
	zzCover("more packets needed", err == ErrMorePacketsNeeded)
	zzCover("error returned", err != nil)
}
''')

# ---------------------------------------------------------------- hostile-only decoders (no encoder-side harness yet)
_FRAG_INV = '''
func zzInv(d *Decoder) bool {
	n := 0
	for _, f := range d.fragments {
		n += len(f)
	}
	return zzAnd(n == d.fragmentsSize, d.fragmentsSize <= %s)
}
'''
codec("rtpmjpeg", "MJPEG", enc_pt="", gen=("C08H",), p08=14, k08=2, cap="(1 << 24) + 65536", inv=_FRAG_INV % "(1<<24)+65536")

# ---------------------------------------------------------------- MPEG-1 audio, AC-3 (groups of audio frames)
_AUDIO_C07 = """
// C07: from ANY decoder state, after one intact group of frames A, an intact
// group B is returned intact, each frame exactly once and in order, with only
// "more packets needed" in between.
func ZzC07%(name)s() {
	P := zzParam("P", %(p)d)
	max := zzConcretize(zzIntIn("max", zzParam("MLO", %(mlo)d), zzParam("MHI", %(mhi)d)))
	d := zzState()
	e := zzEncoder(max, zzU16("seq0"), 0x11223344, 96)
	a := zzAFrames("frameA", P)
	pa, _ := e.Encode(a)
	for _, p := range pa {
		d.Decode(p)
	}
	b := zzAFrames("frameB", P)
	pb, _ := e.Encode(b)
	pos := 0
	for i, p := range pb {
		out, err := d.Decode(p)
		if err != nil {
			zzAssert(err == ErrMorePacketsNeeded, "B: only 'more packets needed' inside a fragmented frame")
			zzAssert(i < len(pb)-1, "B: the last packet completes the group")
			continue
		}
		zzAssert(pos+len(out) <= len(b), "B: decoded frames stay inside the input")
		if pos+len(out) <= len(b) {
			for j := range out {
				zzAssert(zzBytesEq(out[j], b[pos+j]), "B: frame intact")
			}
		}
		pos += len(out)
	}
	zzAssert(pos == len(b), "B: every frame returned exactly once")
	zzAssert(zzInv(d), "decoder accounting invariant re-established")
	if zzParam("COVN", 1) == 1 {
		zzCover("B in several packets", len(pb) > 1)
	}
	if zzParam("COV1", 1) == 1 {
		zzCover("B single packet", len(pb) == 1)
	}
}
"""

_AUDIO_TMPL = """
// valid frame: the header parser of the codec library accepts it and the frame
// length it declares is the length of the buffer.
func zzAFrame(name string, P int) []byte {
	f := zzBytes(name, %(minlen)d, P)
%(validity)s
	// frame lengths are case-split (the header tables admit only a few values)
	return f[:zzConcretize(len(f))]
}

func zzAFrames(name string, P int) [][]byte {
	n := zzConcretize(zzIntIn("nframes", 1, zzParam("N", 2)))
	fs := make([][]byte, n)
	for i := range fs {
		fs[i] = zzAFrame(name, P)
	}
	return fs
}

// C03 + C06: a group of audio frames is packetised into aggregated and/or
// fragmented packets; decoding the packets in order returns exactly the frames,
// in order, each exactly once, the last one at the last packet; payload sizes,
// numbering and identifiers as configured; inputs untouched.
func ZzC03C06%(name)s() {
	P := zzParam("P", %(p)d)
	K := zzParam("K", 1)
	max := zzConcretize(zzIntIn("max", zzParam("MLO", %(mlo)d), zzParam("MHI", %(mhi)d)))
	seq0, ssrc, pt := zzU16("seq0"), zzU32("ssrc"), zzU8("pt")
	e := zzEncoder(max, seq0, ssrc, pt)
	d := zzDecoder()
	seq := seq0
	for call := 0; call < K; call++ {
		fs := zzAFrames("frame", P)
		pkts, err := e.Encode(fs)
		zzAssert(err == nil, "encode returns no error")
		zzAssert(len(pkts) >= 1, "at least one packet")
		pos := 0
		for i, p := range pkts {
			zzAssert(len(p.Payload) <= max, "payload <= PayloadMaxSize")
			zzAssert(p.SequenceNumber == seq, "sequence numbers +1 mod 2^16")
			seq++
			zzAssert(p.SSRC == ssrc, "ssrc")
			zzAssert(p.PayloadType == %(pt_expect)s, "payload type")
			zzAssert(p.Version == 2, "version")
			out, err := d.Decode(p)
			if err != nil {
				zzAssert(err == ErrMorePacketsNeeded, "only 'more packets needed' inside a fragmented frame")
				zzAssert(i < len(pkts)-1, "the last packet completes the group")
				%(marker_more)s
				continue
			}
			%(marker_done)s
			zzAssert(len(out) >= 1, "a completing packet returns at least one frame")
			zzAssert(pos+len(out) <= len(fs), "decoded frames stay inside the input")
			if pos+len(out) <= len(fs) {
				for j := range out {
					zzAssert(zzBytesEq(out[j], fs[pos+j]), "frame identical, same position")
				}
			}
			pos += len(out)
		}
		zzAssert(pos == len(fs), "all frames delivered exactly once")
		if zzParam("COVN", 1) == 1 {
			zzCover("more than one packet", len(pkts) > 1)
		}
		if zzParam("COV1", 1) == 1 {
			zzCover("single packet", len(pkts) == 1)
		}
	}
	zzInputsUnmodified()
}

"""

codec("rtpmpeg1audio", "MPEG1Audio", kind="units", enc_pt="", gen=("C08H",), p08=12, k08=2, cap="4096", inv=_FRAG_INV % "4096",
      state="""
func zzState() *Decoder {
	d := &Decoder{}
	d.firstPacketReceived = zzBool("first")
	nf := zzConcretize(zzIntIn("nfrag", 0, 2))
	for i := 0; i < nf; i++ {
		f := zzBytes("frag", 1, 3)
		d.fragments = append(d.fragments, f)
		d.fragmentsSize += len(f)
	}
	d.fragmentsExpected = zzIntIn("expected", -4096, 4096)
	return d
}
""",
      imports_api='\t"github.com/bluenviron/mediacommon/v2/pkg/codecs/mpeg1audio"\n',
      extra=_AUDIO_C07 % dict(name="MPEG1Audio", p=100, mlo=30, mhi=60),
      extra_api=_AUDIO_TMPL % dict(name="MPEG1Audio", minlen=48, p=100, mlo=30, mhi=60, pt_expect="14",
                               validity="\tvar h mpeg1audio.FrameHeader\n\tzzAssume(h.Unmarshal(f) == nil)\n\tzzAssume(h.FrameLen() == len(f))",
                               marker_more="_ = i", marker_done="_ = i"))

codec("rtpac3", "AC3", kind="units", gen=("C08H",), p08=12, k08=2, cap="8192", inv=_FRAG_INV % "8192",
      state="""
func zzState() *Decoder {
	d := &Decoder{}
	d.firstPacketReceived = zzBool("first")
	nf := zzConcretize(zzIntIn("nfrag", 0, 2))
	for i := 0; i < nf; i++ {
		f := zzBytes("frag", 1, 3)
		d.fragments = append(d.fragments, f)
		d.fragmentsSize += len(f)
	}
	d.fragmentsExpected = zzIntIn("expected", -8192, 8192)
	d.fragmentNextSeqNum = zzU16("nextseq")
	return d
}
""",
      imports_api='\t"github.com/bluenviron/mediacommon/v2/pkg/codecs/ac3"\n',
      extra=_AUDIO_C07 % dict(name="AC3", p=140, mlo=40, mhi=80),
      extra_api=_AUDIO_TMPL % dict(name="AC3", minlen=128, p=140, mlo=40, mhi=80, pt_expect="pt",
                               validity="\tvar si ac3.SyncInfo\n\tzzAssume(si.Unmarshal(f) == nil)\n\tzzAssume(si.FrameSize() == len(f))",
                               marker_more='zzAssert(!p.Marker, "no marker inside a fragmented frame")',
                               marker_done='zzAssert(p.Marker, "marker on the completing packet")'))
