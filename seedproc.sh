#!/bin/bash
# seedproc.sh <src dir with patch.diff zz_demo_test.go pkg.txt notes.txt> <Snn> <property>
# copies the change into /verif/seeded/Snn and confirms it in a scratch worktree:
# build, existing tests of the package pass with the change, demo fails with / passes without.
set -u
export PATH=/opt/veriftools/go1.26.8/bin:$PATH GOTOOLCHAIN=local GOPROXY=off GOFLAGS=-mod=mod
src=$1; id=$2; prop=$3
dst=/verif/seeded/$id
mkdir -p $dst
cp $src/patch.diff $src/zz_demo_test.go $dst/
[ -f $src/notes.txt ] && cp $src/notes.txt $dst/
pkg=$(head -1 $src/pkg.txt | tr -d ' \n')
wt=/tmp/wt/verify_$id
git -C /repo worktree add -q --detach $wt HEAD || exit 3
cd $wt
cp $dst/zz_demo_test.go $pkg/zz_demo_test.go
r_without=$(/verif/nsrun.sh go test -vet=off -count=1 -timeout 20m -run 'TestZzDemo' ./$pkg/ 2>&1 | tail -1)
git apply $dst/patch.diff || echo "PATCH DOES NOT APPLY"
r_build=$(go build . ./pkg/... ./internal/... 2>&1 | tail -2)
r_with=$(/verif/nsrun.sh go test -vet=off -count=1 -timeout 20m -run 'TestZzDemo' ./$pkg/ 2>&1 | grep -E "^(FAIL|ok|---|panic)" | head -4 | tr '\n' ';')
rm $pkg/zz_demo_test.go
pkgs=$(git diff --name-only | xargs -n1 dirname | sort -u | sed 's#^#./#')
r_tests=$(go test -vet=off -count=1 -timeout 12m $pkgs 2>&1 | grep -vE "^\s*$" | tail -4 | tr '\n' ';')
cd /; git -C /repo worktree remove --force $wt
python3 - "$dst" "$id" "$prop" "$pkg" "$r_without" "$r_build" "$r_with" "$r_tests" <<'PY'
import json,sys
dst,id,prop,pkg,wo,b,w,t=sys.argv[1:9]
json.dump({"id":id,"property":prop,"package":pkg,"confirm":{"demo_without_change":wo,"build_with_change":b or "ok","demo_with_change":w,"existing_tests_of_touched_packages_with_change":t}},open(dst+"/meta.json","w"),indent=1)
print(id,prop,pkg,"| without:",wo,"| build:",b or "ok","| with:",w,"| tests:",t)
PY
