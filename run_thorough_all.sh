#!/bin/bash
# runs every thorough check once (used from `vp run` on a snapshot); prints one line per property
export PATH=/opt/veriftools/go1.26.8/bin:$PATH GOTOOLCHAIN=local GOFLAGS=-mod=mod GOPROXY=off
(cd engine && go build -o ../bin/gosym .) || exit 3
unset GOFLAGS
for p in ${PROPS:-C16 C14 C17 C19 C12 C02 C20 C18 C01 C10 C15 C04 C05 C06 C03 C09 C07 C08}; do
  s=$(date +%s)
  VERIF_EVIDENCE_DIR=/tmp/verif-thorough-evidence VERIF_REPO=/repo timeout ${TMO:-3000} nice -n 10 ./check $p --tier thorough > thorough_$p.log 2>&1
  rc=$?
  echo "$p rc=$rc $(( $(date +%s) - s ))s $(grep -E 'VIOLATION|INCONCLUSIVE' thorough_$p.log | head -3 | cut -c1-200 | tr '\n' '|')"
done
