package main

import (
	"fmt"
	"go/types"
	"unicode/utf8"

	"golang.org/x/tools/go/ssa"
)

// ---------- intervals (syntactic, sound over-approximation) ----------

const fullHi = ^uint64(0)

func (in *Interp) ival(t *Term) (lo, hi uint64) {
	if t.IsConst() {
		return t.Val, t.Val
	}
	if r, ok := in.vrange[t.id]; ok {
		return r[0], r[1]
	}
	m := mask(t.Sort.W)
	lo, hi = 0, m
	switch t.Op {
	case OZext:
		lo, hi = in.ival(t.Args[0])
	case OAdd:
		al, ah := in.ival(t.Args[0])
		bl, bh := in.ival(t.Args[1])
		// signed-small constants (x + (-c))
		if t.Args[1].IsConst() && sext64(bl, t.Sort.W) < 0 {
			c := uint64(-sext64(bl, t.Sort.W))
			if al >= c {
				lo, hi = al-c, ah-c
			}
		} else if ah <= m-bh && ah+bh >= ah {
			lo, hi = al+bl, ah+bh
		}
	case OSub:
		al, ah := in.ival(t.Args[0])
		bl, bh := in.ival(t.Args[1])
		if al >= bh {
			lo, hi = al-bh, ah-bl
		}
	case OIte:
		al, ah := in.ival(t.Args[1])
		bl, bh := in.ival(t.Args[2])
		lo, hi = al, ah
		if bl < lo {
			lo = bl
		}
		if bh > hi {
			hi = bh
		}
	case OMul:
		if t.Args[1].IsConst() {
			al, ah := in.ival(t.Args[0])
			c := t.Args[1].Val
			if c != 0 && ah <= m/c {
				lo, hi = al*c, ah*c
			}
		}
	case OUDiv:
		if t.Args[1].IsConst() && t.Args[1].Val != 0 {
			al, ah := in.ival(t.Args[0])
			lo, hi = al/t.Args[1].Val, ah/t.Args[1].Val
		}
	case OURem:
		if t.Args[1].IsConst() && t.Args[1].Val != 0 {
			lo, hi = 0, t.Args[1].Val-1
		}
	case OSDiv, OSRem:
		// non-negative dividend and positive constant divisor: same as unsigned
		if t.Args[1].IsConst() && t.Args[1].Val != 0 && t.Args[1].Val < uint64(1)<<uint(t.Sort.W-1) {
			al, ah := in.ival(t.Args[0])
			if ah < uint64(1)<<uint(t.Sort.W-1) {
				if t.Op == OSDiv {
					lo, hi = al/t.Args[1].Val, ah/t.Args[1].Val
				} else {
					lo, hi = 0, t.Args[1].Val-1
				}
			}
		}
	case OAnd:
		if t.Args[1].IsConst() {
			lo, hi = 0, t.Args[1].Val
		}
	case OLShr:
		if t.Args[1].IsConst() {
			al, ah := in.ival(t.Args[0])
			lo, hi = al>>t.Args[1].Val, ah>>t.Args[1].Val
		}
	case OExtract:
		if t.P1 == 0 {
			al, ah := in.ival(t.Args[0])
			if ah <= m {
				lo, hi = al, ah
			}
		}
	}
	return
}

// refine upper bound with the solver (bisection), cached in vrange
func (in *Interp) ubSolver(t *Term, limit uint64) uint64 {
	lo, hi := in.ival(t)
	if hi <= limit {
		return hi
	}
	ts := in.ts
	// is t <= limit always?
	w := t.Sort.W
	v, _ := in.check(ts.Ult(ts.Const(w, limit), t), false, nil)
	if v != Unsat {
		return fullHi
	}
	// bisect smallest b in [lo,limit] with t<=b valid
	a, b := lo, limit
	for a < b {
		mid := a + (b-a)/2
		v, _ := in.check(ts.Ult(ts.Const(w, mid), t), false, nil)
		if v == Unsat {
			b = mid
		} else {
			a = mid + 1
		}
	}
	in.vrange[t.id] = [2]uint64{lo, b}
	return b
}

// ---------- object cell access ----------

func (in *Interp) freshVar(prefix string, s Sort) *Term {
	in.uidSeq++
	return in.ts.Var(fmt.Sprintf("%s!%d", prefix, in.uidSeq), s)
}

// noteDiff records, for a write into a monitored (input / returned) buffer, the
// condition under which the write is VISIBLE (new value != old value): the
// monitor assertions ask the solver for a model in which some write changes a
// byte, so that the counterexample also shows natively (a copy compare).
func (in *Interp) noteDiff(o *Obj, old, nv Value) {
	if o == nil || (!o.input && o.owned == "") {
		return
	}
	a, ok1 := old.(*Term)
	b, ok2 := nv.(*Term)
	if !ok1 || !ok2 || a == nil || b == nil || a.Sort != b.Sort {
		in.monDiffs = append(in.monDiffs, in.ts.Bool(true))
		return
	}
	in.monDiffs = append(in.monDiffs, in.ts.Not(in.ts.Eq(a, b)))
}

func (in *Interp) noteWrite(o *Obj) {
	if o.input {
		in.events = append(in.events, "write to input buffer @"+in.posStr())
	}
	if o.owned != "" {
		in.events = append(in.events, "write to returned buffer "+o.owned+" @"+in.posStr())
	}
}

func (in *Interp) writeObj(o *Obj, k int, v Value) {
	if o.lenOnly {
		return
	}
	in.noteWrite(o)
	in.noteDiff(o, o.E[k], v)
	in.storeSlot(&o.E[k], v)
}

// readCell reads element idx (64-bit term) of a scalar-element object.
func (in *Interp) readCell(o *Obj, idx *Term) Value {
	ts := in.ts
	if o.lenOnly {
		w, _, _ := basicInfo(o.elemT)
		if o.loCells != nil && idx.IsConst() {
			// input buffer (never written: writes to length-only objects are dropped and
			// flagged by the write monitor): the same cell always reads the same byte
			if t, ok := o.loCells[idx.Val]; ok {
				return t
			}
			t := in.ts.Var(fmt.Sprintf("%s[%d]", o.loName, idx.Val), BV(w))
			o.loCells[idx.Val] = t
			return t
		}
		return in.freshVar("lo", BV(w))
	}
	if idx.IsConst() {
		if idx.Val >= uint64(len(o.E)) {
			in.end("alloc", fmt.Sprintf("read beyond physical size %d (idx %d)", len(o.E), idx.Val))
		}
		return o.E[idx.Val]
	}
	lo, hi := in.ival(idx)
	if hi >= uint64(len(o.E)) {
		hi = uint64(len(o.E)) - 1
	}
	if len(o.E) == 0 || lo > hi {
		in.end("alloc", "symbolic read from empty object")
	}
	res := o.E[hi].(*Term)
	for k := int(hi) - 1; k >= int(lo); k-- {
		res = ts.Ite(ts.Eq(idx, ts.Const(64, uint64(k))), o.E[k].(*Term), res)
	}
	return res
}

func (in *Interp) writeCell(o *Obj, idx *Term, v *Term) {
	ts := in.ts
	if o.lenOnly {
		return
	}
	in.noteWrite(o)
	if idx.IsConst() {
		if idx.Val >= uint64(len(o.E)) {
			in.end("alloc", fmt.Sprintf("write beyond physical size %d (idx %d)", len(o.E), idx.Val))
		}
		in.noteDiff(o, o.E[idx.Val], v)
		o.E[idx.Val] = v
		return
	}
	lo, hi := in.ival(idx)
	if hi >= uint64(len(o.E)) {
		hi = uint64(len(o.E)) - 1
	}
	for k := lo; k <= hi && k < uint64(len(o.E)); k++ {
		if o.input || o.owned != "" {
			if old, ok := o.E[k].(*Term); ok && old.Sort == v.Sort {
				in.monDiffs = append(in.monDiffs, ts.And(ts.Eq(idx, ts.Const(64, k)), ts.Not(ts.Eq(v, old))))
			}
		}
		o.E[k] = ts.Ite(ts.Eq(idx, ts.Const(64, k)), v, o.E[k].(*Term))
	}
}

func (in *Interp) concretePtr(p Pointer) Pointer {
	if p.P != nil || p.O == nil {
		return p
	}
	if p.O.lenOnly {
		in.unsupported("pointer into length-only object")
	}
	k := in.concretize(p.Idx, "ptr-index")
	if k >= uint64(len(p.O.E)) {
		in.end("alloc", "pointer beyond physical size")
	}
	return Pointer{P: &p.O.E[k], O: p.O, K: int(k)}
}

func (in *Interp) load(p Pointer, t types.Type) Value {
	if p.P != nil {
		v := *p.P
		if v == nil {
			in.unsupported("load of uninitialised global (init failed) ")
		}
		return in.copyVal(v)
	}
	if p.O == nil {
		in.end("panic", "nil pointer dereference (load)")
	}
	if isScalarType(p.O.elemT) {
		return in.readCell(p.O, p.Idx)
	}
	cp := in.concretePtr(p)
	return in.copyVal(*cp.P)
}

func (in *Interp) store(p Pointer, v Value) {
	if p.P != nil {
		if p.O != nil {
			in.noteWrite(p.O)
			if p.O.lenOnly {
				return
			}
			in.noteDiff(p.O, *p.P, v)
		}
		in.storeSlot(p.P, v)
		return
	}
	if p.O == nil {
		in.end("panic", "nil pointer dereference (store)")
	}
	if t, ok := v.(*Term); ok && isScalarType(p.O.elemT) {
		in.writeCell(p.O, p.Idx, t)
		return
	}
	cp := in.concretePtr(p)
	in.noteWrite(p.O)
	in.storeSlot(cp.P, v)
}

func (in *Interp) elemPtr(o *Obj, idx *Term) Pointer {
	if idx.IsConst() && !o.lenOnly {
		if idx.Val >= uint64(len(o.E)) {
			in.end("alloc", fmt.Sprintf("element pointer beyond physical size %d (idx %d)", len(o.E), idx.Val))
		}
		return Pointer{P: &o.E[idx.Val], O: o, K: int(idx.Val)}
	}
	return Pointer{O: o, Idx: idx}
}

func (in *Interp) indexAddr(x Value, idx *Term, it types.Type) Pointer {
	ts := in.ts
	i64 := in.to64(idx, it)
	switch a := x.(type) {
	case SliceV:
		in.must(ts.Ult(i64, a.Len), "index out of range")
		if a.O == nil {
			in.end("infeasible", "index into nil slice")
		}
		return in.elemPtr(a.O, ts.Add(a.Off, i64))
	case Pointer: // *array
		if a.P == nil {
			in.end("panic", "nil pointer dereference (index addr)")
		}
		o, ok := (*a.P).(*Obj)
		if !ok {
			in.unsupported(fmt.Sprintf("IndexAddr on pointer to %T", *a.P))
		}
		in.must(ts.Ult(i64, ts.Const(64, uint64(o.phys))), "index out of range")
		return in.elemPtr(o, i64)
	}
	in.unsupported(fmt.Sprintf("IndexAddr on %T", x))
	return Pointer{}
}

func (in *Interp) index(x Value, idx *Term, it types.Type, xt types.Type) Value {
	ts := in.ts
	i64 := in.to64(idx, it)
	switch a := x.(type) {
	case *Obj:
		in.must(ts.Ult(i64, ts.Const(64, uint64(len(a.E)))), "index out of range")
		if isScalarType(a.elemT) {
			return in.readCell(a, i64)
		}
		k := in.concretize(i64, "array index")
		return in.copyVal(a.E[k])
	case StrV:
		in.must(ts.Ult(i64, in.strLen(a)), "index out of range")
		if a.O == nil {
			if i64.IsConst() {
				return ts.Const(8, uint64(a.C[i64.Val]))
			}
			a = in.strObj(a)
		}
		return in.readCell(a.O, ts.Add(a.Off, i64))
	}
	in.unsupported(fmt.Sprintf("Index on %T", x))
	return nil
}

// ---------- slices ----------

func (in *Interp) physFor(n *Term, what string) int {
	if n.IsConst() {
		if n.Val > uint64(in.eng.cfg.MaxAlloc) {
			in.end("alloc", fmt.Sprintf("%s: allocation of %d exceeds physical limit %d", what, n.Val, in.eng.cfg.MaxAlloc))
		}
		return int(n.Val)
	}
	ub := in.ubSolver(n, uint64(in.eng.cfg.MaxAlloc))
	if ub == fullHi {
		// split: allocation-bound exceeded on one side
		lim := in.ts.Const(64, uint64(in.eng.cfg.MaxAlloc))
		if !in.branch(in.ts.Ule(n, lim), "allocbound") {
			in.end("alloc", what+": symbolic allocation size can exceed physical limit")
		}
		return in.eng.cfg.MaxAlloc
	}
	return int(ub)
}

func (in *Interp) makeSlice(elem types.Type, ln, cp *Term) SliceV {
	ts := in.ts
	in.must(ts.Sle(ts.Const(64, 0), ln), "makeslice: len out of range")
	in.must(ts.Ule(ln, cp), "makeslice: cap out of range")
	if !cp.IsConst() && isScalarType(elem) {
		if ub := in.ubSolver(cp, uint64(in.eng.cfg.MaxAlloc)); ub == fullHi {
			// size can exceed the physical limit: length-only object (contents
			// unknown: reads give unconstrained values) — over-approximation
			in.must(ts.Ule(cp, ts.Const(64, 1<<40)), "makeslice: len out of range")
			in.objSeq++
			o := &Obj{id: in.objSeq, elemT: elem, lenOnly: true, phys: 1 << 40}
			in.note("length-only allocation (size may exceed physical limit)")
			return SliceV{o, ts.Const(64, 0), ln, cp}
		}
	}
	n := in.physFor(cp, "make")
	o := in.newObj(elem, n)
	if isScalarType(elem) {
		z := in.zero(elem)
		for i := range o.E {
			o.E[i] = z
		}
	} else {
		for i := range o.E {
			o.E[i] = in.zero(elem)
		}
	}
	return SliceV{o, ts.Const(64, 0), ln, cp}
}

func (in *Interp) sliceOp(fr *frame, x *ssa.Slice) Value {
	ts := in.ts
	v := in.get(fr, x.X)
	getIdx := func(e ssa.Value) *Term {
		if e == nil {
			return nil
		}
		return in.to64(in.get(fr, e).(*Term), e.Type())
	}
	lo, hi, mx := getIdx(x.Low), getIdx(x.High), getIdx(x.Max)
	if lo == nil {
		lo = ts.Const(64, 0)
	}
	if in.eng.cfg.ConcOff && !lo.IsConst() {
		// case-split symbolic slice offsets (keeps later accesses at concrete
		// positions); only offsets that pass the bounds check are enumerated
		if l2, h2 := in.ival(lo); l2 != h2 {
			var lim *Term
			switch a := v.(type) {
			case SliceV:
				lim = a.Cap
			case StrV:
				lim = in.strLen(a)
			}
			if lim != nil {
				in.must(ts.Ule(lo, lim), "slice bounds out of range [lo:]")
			}
			lo = ts.Const(64, in.concretize(lo, "slice-offset"))
		}
	}
	if in.eng.cfg.ConcOff && hi != nil && !hi.IsConst() {
		if l2, h2 := in.ival(hi); l2 != h2 {
			var lim *Term
			switch a := v.(type) {
			case SliceV:
				lim = a.Cap
			case StrV:
				lim = in.strLen(a)
			}
			if lim != nil {
				in.must(ts.Ule(hi, lim), "slice bounds out of range [:hi]")
			}
			hi = ts.Const(64, in.concretize(hi, "slice-end"))
		}
	}
	switch a := v.(type) {
	case SliceV:
		if hi == nil {
			hi = a.Len
		}
		capv := a.Cap
		if mx != nil {
			in.must(ts.Ule(mx, a.Cap), "slice bounds out of range [::max]")
			capv = mx
		}
		in.must(ts.Ule(hi, capv), "slice bounds out of range [:hi]")
		in.must(ts.Ule(lo, hi), "slice bounds out of range [lo:hi]")
		if a.O == nil {
			return a
		}
		return SliceV{a.O, ts.Add(a.Off, lo), ts.Sub(hi, lo), ts.Sub(capv, lo)}
	case StrV:
		ln := in.strLen(a)
		if hi == nil {
			hi = ln
		}
		in.must(ts.Ule(hi, ln), "string slice bounds out of range [:hi]")
		in.must(ts.Ule(lo, hi), "string slice bounds out of range [lo:hi]")
		if a.O == nil {
			if lo.IsConst() && hi.IsConst() {
				return StrV{C: a.C[lo.Val:hi.Val]}
			}
			a = in.strObj(a)
		}
		return StrV{O: a.O, Off: ts.Add(a.Off, lo), Len: ts.Sub(hi, lo)}
	case Pointer:
		if a.P == nil {
			in.end("panic", "nil pointer dereference (slice of *array)")
		}
		o, ok := (*a.P).(*Obj)
		if !ok {
			in.unsupported("slice of non-array pointer")
		}
		n := ts.Const(64, uint64(o.phys))
		if hi == nil {
			hi = n
		}
		capv := n
		if mx != nil {
			in.must(ts.Ule(mx, n), "slice bounds out of range")
			capv = mx
		}
		in.must(ts.Ule(hi, capv), "slice bounds out of range [:hi]")
		in.must(ts.Ule(lo, hi), "slice bounds out of range [lo:hi]")
		return SliceV{o, lo, ts.Sub(hi, lo), ts.Sub(capv, lo)}
	}
	in.unsupported(fmt.Sprintf("slice of %T", v))
	return nil
}

// reader abstraction over slices/strings of scalars
type seqView struct {
	O   *Obj
	Off *Term
	Len *Term
}

func (in *Interp) viewOf(v Value) seqView {
	switch x := v.(type) {
	case SliceV:
		return seqView{x.O, x.Off, x.Len}
	case StrV:
		if x.O == nil {
			x = in.strObj(x)
		}
		return seqView{x.O, x.Off, x.Len}
	}
	in.unsupported(fmt.Sprintf("viewOf %T", v))
	return seqView{}
}

// viewAt reads element k of a view; reads beyond the physical size (only
// possible at positions that the caller guards with k < len) give zero.
func (in *Interp) viewAt(s seqView, k *Term) *Term {
	idx := in.ts.Add(s.Off, k)
	if !s.O.lenOnly {
		if lo, _ := in.ival(idx); lo >= uint64(len(s.O.E)) {
			w, _, _ := basicInfo(s.O.elemT)
			return in.ts.Const(w, 0)
		}
	}
	return in.readCell(s.O, idx).(*Term)
}

// copyCells: dst[doff+k] = src[k] for k < n ; scalar elements.
func (in *Interp) copyCells(dst *Obj, doff *Term, src seqView, n *Term) {
	ts := in.ts
	if dst.lenOnly {
		return
	}
	if n.IsConst() && n.Val == 0 {
		return
	}
	in.noteWrite(dst)
	if src.O != nil && src.O.lenOnly {
		// contents unknown: havoc the destination range
		w, _, _ := basicInfo(dst.elemT)
		dl, dh := in.ival(doff)
		_, nh := in.ival(n)
		for j := dl; j < uint64(len(dst.E)) && j-dl < (dh-dl)+nh; j++ {
			dst.E[j] = in.freshVar("hv", BV(w))
		}
		if dst.input || dst.owned != "" {
			in.monDiffs = append(in.monDiffs, ts.Bool(true))
		}
		return
	}
	// snapshot source when overlapping with destination
	var srcE []Value
	if src.O == dst {
		srcE = append([]Value(nil), src.O.E...)
	} else if src.O != nil {
		srcE = src.O.E
	}
	read := func(k *Term) *Term {
		idx := ts.Add(src.Off, k)
		if idx.IsConst() {
			if idx.Val >= uint64(len(srcE)) {
				// beyond physical: cannot be selected when k < n holds (n <= phys) – return junk-free zero
				return nil
			}
			return srcE[idx.Val].(*Term)
		}
		lo, hi := in.ival(idx)
		if hi >= uint64(len(srcE)) {
			hi = uint64(len(srcE)) - 1
		}
		if len(srcE) == 0 || lo > hi {
			return nil
		}
		res := srcE[hi].(*Term)
		for q := int(hi) - 1; q >= int(lo); q-- {
			res = ts.Ite(ts.Eq(idx, ts.Const(64, uint64(q))), srcE[q].(*Term), res)
		}
		return res
	}
	dl, dh := in.ival(doff)
	_, nh := in.ival(n)
	if nh > uint64(len(dst.E)) {
		nh = uint64(len(dst.E))
	}
	if doff.IsConst() {
		for k := uint64(0); k < nh; k++ {
			j := doff.Val + k
			if j >= uint64(len(dst.E)) {
				break
			}
			sv := read(ts.Const(64, k))
			if sv == nil {
				continue
			}
			if dst.input || dst.owned != "" {
				if old, ok := dst.E[j].(*Term); ok && old.Sort == sv.Sort {
					in.monDiffs = append(in.monDiffs, ts.And(ts.Ult(ts.Const(64, k), n), ts.Not(ts.Eq(sv, old))))
				}
			}
			dst.E[j] = ts.Ite(ts.Ult(ts.Const(64, k), n), sv, dst.E[j].(*Term))
		}
		return
	}
	end := dh + nh
	if end > uint64(len(dst.E)) || end < dh {
		end = uint64(len(dst.E))
	}
	for j := dl; j < end; j++ {
		jc := ts.Const(64, j)
		k := ts.Sub(jc, doff)
		sv := read(k)
		if sv == nil {
			continue
		}
		c := ts.And(ts.Ule(doff, jc), ts.Ult(k, n))
		if dst.input || dst.owned != "" {
			if old, ok := dst.E[j].(*Term); ok && old.Sort == sv.Sort {
				in.monDiffs = append(in.monDiffs, ts.And(c, ts.Not(ts.Eq(sv, old))))
			}
		}
		dst.E[j] = ts.Ite(c, sv, dst.E[j].(*Term))
	}
}

func (in *Interp) appendOp(s SliceV, tv Value, st types.Type) Value {
	ts := in.ts
	elem := under(st).(*types.Slice).Elem()
	scalar := isScalarType(elem)
	var t seqView
	switch x := tv.(type) {
	case SliceV:
		t = seqView{x.O, x.Off, x.Len}
	case StrV:
		t = in.viewOf(x)
	default:
		in.unsupported(fmt.Sprintf("append of %T", tv))
	}
	if t.Len.IsConst() && t.Len.Val == 0 {
		return s
	}
	newLen := ts.Add(s.Len, t.Len)
	inPlace := false
	if s.O != nil {
		inPlace = in.branch(ts.Ule(newLen, s.Cap), "append-inplace")
	}
	if inPlace {
		if scalar {
			in.copyCells(s.O, ts.Add(s.Off, s.Len), t, t.Len)
		} else {
			off := in.concretize(ts.Add(s.Off, s.Len), "append off")
			n := in.concretize(t.Len, "append n")
			toff := in.concretize(t.Off, "append toff")
			if off+n > uint64(len(s.O.E)) {
				in.end("alloc", "append beyond physical size")
			}
			for k := uint64(0); k < n; k++ {
				in.writeObj(s.O, int(off+k), t.O.E[toff+k])
			}
		}
		return SliceV{s.O, s.Off, newLen, s.Cap}
	}
	// reallocation
	slack := uint64(in.eng.cfg.AppendSlack)
	newCap := ts.Add(newLen, ts.Const(64, slack))
	lenOnly := (s.O != nil && s.O.lenOnly) || (t.O != nil && t.O.lenOnly)
	if !lenOnly && scalar && !newCap.IsConst() {
		if ub := in.ubSolver(newCap, uint64(in.eng.cfg.MaxAlloc)); ub == fullHi {
			lenOnly = true
			in.note("length-only allocation (size may exceed physical limit)")
		}
	}
	var o *Obj
	if lenOnly {
		in.objSeq++
		o = &Obj{id: in.objSeq, elemT: elem, lenOnly: true, phys: 1 << 40}
		return SliceV{o, ts.Const(64, 0), newLen, newCap}
	}
	n := in.physFor(newCap, "append")
	o = in.newObj(elem, n)
	if scalar {
		z := in.zero(elem)
		for i := range o.E {
			o.E[i] = z
		}
		if s.O != nil {
			in.copyCells(o, ts.Const(64, 0), seqView{s.O, s.Off, s.Len}, s.Len)
		}
		in.copyCells(o, s.Len, t, t.Len)
	} else {
		sl := in.concretize(s.Len, "append slen")
		tl := in.concretize(t.Len, "append tlen")
		for i := range o.E {
			o.E[i] = in.zero(elem)
		}
		var soff, toff uint64
		if s.O != nil {
			soff = in.concretize(s.Off, "append soff")
		}
		toff = in.concretize(t.Off, "append toff")
		for k := uint64(0); k < sl; k++ {
			o.E[k] = in.copyVal(s.O.E[soff+k])
		}
		for k := uint64(0); k < tl; k++ {
			o.E[sl+k] = in.copyVal(t.O.E[toff+k])
		}
	}
	return SliceV{o, ts.Const(64, 0), newLen, newCap}
}

func (in *Interp) copyOp(dst SliceV, srcv Value) Value {
	ts := in.ts
	src := in.viewOf(srcv)
	n := ts.Ite(ts.Ult(src.Len, dst.Len), src.Len, dst.Len)
	if dst.O == nil || src.O == nil {
		return n
	}
	if isScalarType(dst.O.elemT) {
		in.copyCells(dst.O, dst.Off, src, n)
		return n
	}
	nn := in.concretize(n, "copy n")
	doff := in.concretize(dst.Off, "copy doff")
	soff := in.concretize(src.Off, "copy soff")
	tmp := make([]Value, nn)
	for k := uint64(0); k < nn; k++ {
		tmp[k] = in.copyVal(src.O.E[soff+k])
	}
	for k := uint64(0); k < nn; k++ {
		in.writeObj(dst.O, int(doff+k), tmp[k])
	}
	return n
}

// ---------- strings ----------

func (in *Interp) strLen(s StrV) *Term {
	if s.O == nil {
		return in.ts.Const(64, uint64(len(s.C)))
	}
	return s.Len
}

func (in *Interp) strObj(s StrV) StrV {
	if s.O != nil {
		return s
	}
	o := in.newObj(types.Typ[types.Uint8], len(s.C))
	for i := 0; i < len(s.C); i++ {
		o.E[i] = in.ts.Const(8, uint64(s.C[i]))
	}
	o.frozen = true
	return StrV{O: o, Off: in.ts.Const(64, 0), Len: in.ts.Const(64, uint64(len(s.C)))}
}

// concrete string if all parts are constants
func (in *Interp) strConcrete(s StrV) (string, bool) {
	if s.O == nil {
		return s.C, true
	}
	if !s.Off.IsConst() || !s.Len.IsConst() || s.O.lenOnly {
		return "", false
	}
	b := make([]byte, s.Len.Val)
	for i := range b {
		e := s.O.E[s.Off.Val+uint64(i)].(*Term)
		if !e.IsConst() {
			return "", false
		}
		b[i] = byte(e.Val)
	}
	return string(b), true
}

func (in *Interp) sliceConcrete(s SliceV) ([]byte, bool) {
	if s.O == nil {
		return nil, true
	}
	if !s.Off.IsConst() || !s.Len.IsConst() || s.O.lenOnly {
		return nil, false
	}
	b := make([]byte, s.Len.Val)
	for i := range b {
		e, ok := s.O.E[s.Off.Val+uint64(i)].(*Term)
		if !ok || !e.IsConst() {
			return nil, false
		}
		b[i] = byte(e.Val)
	}
	return b, true
}

func (in *Interp) mkString(c string) StrV { return StrV{C: c} }

func (in *Interp) bytesFromConcrete(b []byte) SliceV {
	ts := in.ts
	o := in.newObj(types.Typ[types.Uint8], len(b))
	for i, c := range b {
		o.E[i] = ts.Const(8, uint64(c))
	}
	n := ts.Const(64, uint64(len(b)))
	return SliceV{o, ts.Const(64, 0), n, n}
}

func (in *Interp) strConcat(a, b StrV) Value {
	ts := in.ts
	if ca, ok := in.strConcrete(a); ok {
		if cb, ok := in.strConcrete(b); ok {
			return StrV{C: ca + cb}
		}
		if ca == "" {
			return b
		}
	}
	if cb, ok := in.strConcrete(b); ok && cb == "" {
		return a
	}
	av, bv := in.viewOf(a), in.viewOf(b)
	nl := ts.Add(av.Len, bv.Len)
	n := in.physFor(nl, "string concat")
	o := in.newObj(types.Typ[types.Uint8], n)
	z := ts.Const(8, 0)
	for i := range o.E {
		o.E[i] = z
	}
	in.copyCells(o, ts.Const(64, 0), av, av.Len)
	in.copyCells(o, av.Len, bv, bv.Len)
	o.frozen = true
	return StrV{O: o, Off: ts.Const(64, 0), Len: nl}
}

func (in *Interp) bytesToString(s SliceV) Value {
	ts := in.ts
	if b, ok := in.sliceConcrete(s); ok {
		return StrV{C: string(b)}
	}
	if s.O.lenOnly {
		return StrV{O: s.O, Off: s.Off, Len: s.Len}
	}
	n := in.physFor(s.Len, "string(bytes)")
	o := in.newObj(types.Typ[types.Uint8], n)
	z := ts.Const(8, 0)
	for i := range o.E {
		o.E[i] = z
	}
	in.copyCells(o, ts.Const(64, 0), seqView{s.O, s.Off, s.Len}, s.Len)
	o.frozen = true
	return StrV{O: o, Off: ts.Const(64, 0), Len: s.Len}
}

func (in *Interp) stringToBytes(s StrV) Value {
	ts := in.ts
	if c, ok := in.strConcrete(s); ok {
		if len(c) == 0 {
			// non-nil empty slice
			o := in.newObj(types.Typ[types.Uint8], 0)
			z := ts.Const(64, 0)
			return SliceV{o, z, z, z}
		}
		return in.bytesFromConcrete([]byte(c))
	}
	n := in.physFor(s.Len, "[]byte(string)")
	o := in.newObj(types.Typ[types.Uint8], n)
	z := ts.Const(8, 0)
	for i := range o.E {
		o.E[i] = z
	}
	in.copyCells(o, ts.Const(64, 0), seqView{s.O, s.Off, s.Len}, s.Len)
	return SliceV{o, ts.Const(64, 0), s.Len, s.Len}
}

// seqEq: equality of two scalar sequences as a term
func (in *Interp) seqEq(a, b seqView) *Term {
	ts := in.ts
	leq := ts.Eq(a.Len, b.Len)
	if leq.IsFalse() {
		return leq
	}
	if a.O == nil || b.O == nil {
		return leq
	}
	_, ah := in.ival(a.Len)
	_, bh := in.ival(b.Len)
	n := ah
	if bh < n {
		n = bh
	}
	if n > uint64(a.O.phys) {
		n = uint64(a.O.phys)
	}
	if n > uint64(b.O.phys) {
		n = uint64(b.O.phys)
	}
	if a.O.lenOnly || b.O.lenOnly {
		return ts.And(leq, in.freshVar("eqlo", BoolSort))
	}
	cs := []*Term{leq}
	for k := uint64(0); k < n; k++ {
		kc := ts.Const(64, k)
		x := in.viewAt(a, kc)
		y := in.viewAt(b, kc)
		cs = append(cs, ts.Or(ts.Ule(a.Len, kc), ts.Eq(x, y)))
	}
	return ts.AndN(cs...)
}

func (in *Interp) strEq(a, b StrV) *Term {
	ts := in.ts
	if ca, ok := in.strConcrete(a); ok {
		if cb, ok := in.strConcrete(b); ok {
			return ts.Bool(ca == cb)
		}
	}
	return in.seqEq(in.viewOf(a), in.viewOf(b))
}

func (in *Interp) strLess(a, b StrV, orEq bool) *Term {
	ts := in.ts
	if ca, ok := in.strConcrete(a); ok {
		if cb, ok := in.strConcrete(b); ok {
			if orEq {
				return ts.Bool(ca <= cb)
			}
			return ts.Bool(ca < cb)
		}
	}
	av, bv := in.viewOf(a), in.viewOf(b)
	_, ah := in.ival(av.Len)
	_, bh := in.ival(bv.Len)
	n := ah
	if bh < n {
		n = bh
	}
	// result after comparing common prefix: len(a) < len(b) (or <=)
	var res *Term
	if orEq {
		res = ts.Ule(av.Len, bv.Len)
	} else {
		res = ts.Ult(av.Len, bv.Len)
	}
	for k := int(n) - 1; k >= 0; k-- {
		kc := ts.Const(64, uint64(k))
		inA := ts.Ult(kc, av.Len)
		inB := ts.Ult(kc, bv.Len)
		x := in.viewAt(av, kc)
		y := in.viewAt(bv, kc)
		both := ts.And(inA, inB)
		res = ts.Ite(both, ts.Ite(ts.Eq(x, y), res, ts.Ult(x, y)), res)
	}
	return res
}

// ---------- maps ----------

func (in *Interp) keyEq(a, b Value) *Term { return in.valEq(a, b) }

func (in *Interp) mapUpdate(m *MapV, k, v Value) {
	ts := in.ts
	var anyEq []*Term
	for _, e := range m.E {
		eq := ts.And(e.Present, in.keyEq(e.K, k))
		if eq.IsFalse() {
			continue
		}
		if eq.IsTrue() {
			e.V = v
			return
		}
		// symbolic: decide by forking to keep values simple
		if in.branch(eq, "mapupd") {
			e.V = v
			return
		}
		anyEq = append(anyEq, eq)
	}
	m.E = append(m.E, &mapEntry{K: k, V: v, Present: ts.Bool(true)})
}

func (in *Interp) mapDelete(m *MapV, k Value) {
	ts := in.ts
	for _, e := range m.E {
		eq := ts.And(e.Present, in.keyEq(e.K, k))
		if eq.IsFalse() {
			continue
		}
		if in.branch(eq, "mapdel") {
			e.Present = ts.Bool(false)
			return
		}
	}
}

func (in *Interp) mapLookup(m *MapV, k Value, vt types.Type) (Value, *Term) {
	ts := in.ts
	if m != nil {
		for _, e := range m.E {
			eq := ts.And(e.Present, in.keyEq(e.K, k))
			if eq.IsFalse() {
				continue
			}
			if in.branch(eq, "maplookup") {
				return in.copyVal(e.V), ts.Bool(true)
			}
		}
	}
	return in.zero(vt), ts.Bool(false)
}

func (in *Interp) lookup(fr *frame, x *ssa.Lookup) Value {
	v := in.get(fr, x.X)
	k := in.get(fr, x.Index)
	switch a := v.(type) {
	case *MapV:
		mt := under(x.X.Type()).(*types.Map)
		val, ok := in.mapLookup(a, k, mt.Elem())
		if x.CommaOk {
			return TupleV{val, ok}
		}
		return val
	case StrV:
		return in.index(a, k.(*Term), x.Index.Type(), x.X.Type())
	}
	in.unsupported(fmt.Sprintf("lookup on %T", v))
	return nil
}

func (in *Interp) rangeIter(v Value) Value {
	switch a := v.(type) {
	case *MapV:
		it := &MapIter{M: a}
		if a != nil {
			// present entries decided now (fork on symbolic presence)
			for i, e := range a.E {
				if in.branch(e.Present, "maprange-present") {
					it.order = append(it.order, i)
				}
			}
			if in.eng.cfg.MapPerm && len(it.order) > 1 {
				// nondeterministic iteration order: choose a permutation by forking
				n := len(it.order)
				rem := append([]int(nil), it.order...)
				var perm []int
				for len(rem) > 1 {
					alts := make([]*Term, len(rem))
					for i := range alts {
						alts[i] = in.ts.Bool(false)
					}
					// all alternatives feasible: use a fresh choice variable
					ch := in.freshVar("maporder", BV(8))
					for i := range alts {
						alts[i] = in.ts.Eq(ch, in.ts.Const(8, uint64(i)))
					}
					k := in.fork(alts, "maporder")
					perm = append(perm, rem[k])
					rem = append(rem[:k], rem[k+1:]...)
				}
				perm = append(perm, rem[0])
				_ = n
				it.order = perm
			}
		}
		return it
	case StrV:
		return &StrIter{S: a, pos: in.ts.Const(64, 0)}
	}
	in.unsupported(fmt.Sprintf("range over %T", v))
	return nil
}

func (in *Interp) nextIter(itv Value, x *ssa.Next) Value {
	ts := in.ts
	switch it := itv.(type) {
	case *MapIter:
		tt := x.Type().(*types.Tuple)
		if it.pos >= len(it.order) {
			return TupleV{ts.Bool(false), in.zeroOrNil(tt.At(1).Type()), in.zeroOrNil(tt.At(2).Type())}
		}
		e := it.M.E[it.order[it.pos]]
		it.pos++
		return TupleV{ts.Bool(true), in.copyVal(e.K), in.copyVal(e.V)}
	case *StrIter:
		ln := in.strLen(it.S)
		if !in.branch(ts.Ult(it.pos, ln), "strrange") {
			return TupleV{ts.Bool(false), ts.Const(64, 0), ts.Const(32, 0)}
		}
		if c, ok := in.strConcrete(it.S); ok && it.pos.IsConst() {
			r, sz := utf8.DecodeRuneInString(c[it.pos.Val:])
			i := it.pos
			it.pos = ts.Const(64, it.pos.Val+uint64(sz))
			return TupleV{ts.Bool(true), i, ts.Const(32, uint64(r))}
		}
		s := in.viewOf(it.S)
		b := in.viewAt(s, it.pos)
		if !in.branch(ts.Ult(b, ts.Const(8, 0x80)), "strrange-ascii") {
			in.unsupported("range over symbolic non-ASCII string")
		}
		i := it.pos
		it.pos = ts.Add(it.pos, ts.Const(64, 1))
		return TupleV{ts.Bool(true), i, ts.Zext(b, 32)}
	}
	in.unsupported(fmt.Sprintf("next on %T", itv))
	return nil
}

func (in *Interp) zeroOrNil(t types.Type) Value {
	if b, ok := t.(*types.Basic); ok && b.Kind() == types.Invalid {
		return in.ts.Bool(false)
	}
	return in.zero(t)
}
