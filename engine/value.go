package main

import (
	"fmt"
	"go/types"

	"golang.org/x/tools/go/ssa"
)

// Value is one of:
//
//	*Term      scalar (bool, intN, uintN, floatN)
//	*StructV   struct (value semantics: copied on load, stored in place)
//	*Obj       array value / backing store of slices and strings
//	Pointer
//	SliceV
//	StrV
//	*MapV
//	IfaceV
//	*Closure
//	*ssa.Builtin
//	TupleV
//	*ChanV (opaque)
type Value interface{}

type StructV struct{ F []Value }

// Obj is an array object: backing store of arrays, slices and strings.
type Obj struct {
	E       []Value
	id      int
	elemT   types.Type
	lenOnly bool   // no contents: reads give fresh unconstrained values, writes are dropped
	loCells map[uint64]*Term // length-only INPUT buffers: reads at constant offsets are memoised (and replayable)
	loName  string
	phys    int    // physical length (== len(E) unless lenOnly)
	owned   string // tag: handed to caller (write monitor)
	input   bool   // harness input buffer (write monitor)
	frozen  bool   // string backing etc.
	roStr   string
	fltTag  *Term // the string is strconv.FormatFloat(fltTag,'f',-1,64) (opaque carrier)
}

type Pointer struct {
	P   *Value // concrete slot; nil for nil pointer / symbolic element pointer
	O   *Obj   // object containing the slot, when it is an element of an array object
	Idx *Term  // symbolic (or constant) 64-bit index into O when P == nil && O != nil
	K   int    // concrete index into O when P != nil && O != nil
	Fn  bool
}

func (p Pointer) IsNil() bool { return p.P == nil && p.O == nil }

type SliceV struct {
	O             *Obj
	Off, Len, Cap *Term // 64-bit
}

type StrV struct {
	C   string // concrete fast path when O == nil
	O   *Obj
	Off *Term
	Len *Term
}

type mapEntry struct {
	K       Value
	V       Value
	Present *Term
}

type MapV struct {
	E  []*mapEntry
	KT types.Type
	VT types.Type
	id int
}

type IfaceV struct {
	T types.Type // dynamic type; nil for nil interface
	V Value
}

type Closure struct {
	Fn  *ssa.Function
	Env []Value
}

type TupleV []Value

type ChanV struct {
	id     int
	closed bool
	// sequential channel model (CHANMODEL): buffered values in FIFO order
	q   []Value
	cap int
}

// iterator for Range/Next
type MapIter struct {
	M     *MapV
	order []int
	pos   int
}
type StrIter struct {
	S   StrV
	pos *Term
}

type pathEnd struct {
	Kind string // "panic", "unsupported", "unwind", "infeasible", "blocked", "alloc", "exit", "budget"
	Msg  string
	Pos  string
}

func (p pathEnd) String() string { return fmt.Sprintf("%s: %s @%s", p.Kind, p.Msg, p.Pos) }
