package main

// SMT terms: hash-consed, constant-folded, locally simplified.
// Sorts: Bool, BV(n) with n<=64, FP32/FP64, Int, Real (ideal arithmetic).

import (
	"fmt"
	"math"
	"math/big"
	"strconv"
	"strings"
	"sync"
)

type SortKind int

const (
	SBool SortKind = iota
	SBV
	SFP
	SInt
	SReal
)

type Sort struct {
	K SortKind
	W int // BV width, or FP total width (32/64)
}

func (s Sort) String() string {
	switch s.K {
	case SBool:
		return "Bool"
	case SBV:
		return fmt.Sprintf("(_ BitVec %d)", s.W)
	case SFP:
		if s.W == 32 {
			return "(_ FloatingPoint 8 24)"
		}
		return "(_ FloatingPoint 11 53)"
	case SInt:
		return "Int"
	case SReal:
		return "Real"
	}
	return "?"
}

var BoolSort = Sort{SBool, 0}

func BV(w int) Sort { return Sort{SBV, w} }

type Op int

const (
	OConst Op = iota // BV/Bool constant (val)
	OVar
	OAdd
	OSub
	OMul
	OUDiv
	OURem
	OSDiv
	OSRem
	OAnd
	OOr
	OXor
	ONot // bvnot
	ONeg // bvneg
	OShl // same-width shift amount
	OLShr
	OAShr
	OConcat
	OExtract // P0=hi P1=lo
	OZext    // P0 = extra bits
	OSext
	OIte
	OEq
	OUlt
	OUle
	OSlt
	OSle
	OBAnd // bool and (n-ary)
	OBOr
	OBNot
	// FP
	OFPConst // val = bits
	OFPAdd
	OFPSub
	OFPMul
	OFPDiv
	OFPNeg
	OFPAbs
	OFPLt
	OFPLe
	OFPEq
	OFPIsNaN
	OFPRound    // P0 = mode (0 RNE,1 RNA,2 RTP,3 RTN,4 RTZ)
	OFPFromS    // signed bv -> fp (RNE)
	OFPFromU    // unsigned bv -> fp
	OFPToS      // fp -> signed bv (RTZ), W = target
	OFPToU      // fp -> unsigned bv (RTZ)
	OFPToFP     // fp -> fp other precision (RNE)
	OFPFromBits // bv -> fp reinterpret
	OFPToBits   // fp -> bv (uninterpreted fresh var constrained) -- handled by interp
	// Int / Real (ideal arithmetic)
	OIConst // big val in S
	OIAdd
	OISub
	OIMul
	OIDiv // integer div (SMT div)
	OIMod
	OILt
	OILe
	OINeg
	OToReal
	ORDiv
	OBV2Nat
	OInt2BV // P0 = width
	OUF     // uninterpreted function application: Name, args; sort = result sort
)

type Term struct {
	Op   Op
	Sort Sort
	Args []*Term
	Val  uint64 // const value (BV: masked; Bool: 0/1; FP: bits)
	P0   int
	P1   int
	Name string // var name / UF name / big const
	id   int
}

type TermStore struct {
	tab   map[string]*Term
	next  int
	Vars  []*Term           // in creation order
	UFs   map[string]string // name -> declaration
	ufOrd []string
}

func NewTermStore() *TermStore {
	return &TermStore{tab: map[string]*Term{}, UFs: map[string]string{}}
}

func mask(w int) uint64 {
	if w >= 64 {
		return ^uint64(0)
	}
	return (uint64(1) << uint(w)) - 1
}

func (ts *TermStore) mk(t *Term) *Term {
	var sb strings.Builder
	sb.WriteString(strconv.Itoa(int(t.Op)))
	sb.WriteByte('|')
	sb.WriteString(strconv.Itoa(int(t.Sort.K)))
	sb.WriteByte(':')
	sb.WriteString(strconv.Itoa(t.Sort.W))
	sb.WriteByte('|')
	sb.WriteString(strconv.FormatUint(t.Val, 16))
	sb.WriteByte('|')
	sb.WriteString(strconv.Itoa(t.P0))
	sb.WriteByte(',')
	sb.WriteString(strconv.Itoa(t.P1))
	sb.WriteByte('|')
	sb.WriteString(t.Name)
	for _, a := range t.Args {
		sb.WriteByte('#')
		sb.WriteString(strconv.Itoa(a.id))
	}
	k := sb.String()
	if e, ok := ts.tab[k]; ok {
		return e
	}
	ts.next++
	t.id = ts.next
	ts.tab[k] = t
	return t
}

// Constants live in a process-wide table (negative ids) so that values that
// survive across paths (package-level variables initialised once per worker)
// can be used with any per-path TermStore.
type constKey struct {
	k  SortKind
	w  int
	v  uint64
	fp bool
}

var (
	constMu  sync.Mutex
	constTab = map[constKey]*Term{}
	constSeq int
)

func globalConst(op Op, s Sort, v uint64) *Term {
	k := constKey{s.K, s.W, v, op == OFPConst}
	constMu.Lock()
	defer constMu.Unlock()
	if t, ok := constTab[k]; ok {
		return t
	}
	constSeq--
	t := &Term{Op: op, Sort: s, Val: v, id: constSeq}
	constTab[k] = t
	return t
}

func (ts *TermStore) Const(w int, v uint64) *Term {
	return globalConst(OConst, BV(w), v&mask(w))
}
func (ts *TermStore) Bool(b bool) *Term {
	v := uint64(0)
	if b {
		v = 1
	}
	return globalConst(OConst, BoolSort, v)
}
func (ts *TermStore) Var(name string, s Sort) *Term {
	n := ts.next
	t := ts.mk(&Term{Op: OVar, Sort: s, Name: name})
	if ts.next != n {
		ts.Vars = append(ts.Vars, t)
	}
	return t
}

func (t *Term) IsConst() bool { return t.Op == OConst }
func (t *Term) IsTrue() bool  { return t.Op == OConst && t.Sort.K == SBool && t.Val == 1 }
func (t *Term) IsFalse() bool { return t.Op == OConst && t.Sort.K == SBool && t.Val == 0 }

func sext64(v uint64, w int) int64 {
	if w >= 64 {
		return int64(v)
	}
	if v&(uint64(1)<<uint(w-1)) != 0 {
		return int64(v | ^mask(w))
	}
	return int64(v)
}

// ---------- BV builders ----------

func (ts *TermStore) bin(op Op, a, b *Term) *Term {
	if a.Sort != b.Sort {
		panic(fmt.Sprintf("sort mismatch in op %d: %v vs %v", op, a.Sort, b.Sort))
	}
	w := a.Sort.W
	if a.IsConst() && b.IsConst() {
		if v, ok := foldBin(op, w, a.Val, b.Val); ok {
			return ts.Const(w, v)
		}
	}
	// identities
	switch op {
	case OAdd:
		if a.IsConst() && a.Val == 0 {
			return b
		}
		if b.IsConst() && b.Val == 0 {
			return a
		}
		// (x + c1) + c2
		if b.IsConst() && a.Op == OAdd && a.Args[1].IsConst() {
			return ts.bin(OAdd, a.Args[0], ts.Const(w, a.Args[1].Val+b.Val))
		}
		if a.IsConst() && !b.IsConst() {
			return ts.bin(OAdd, b, a)
		}
		// (x - y) + y = x
		if a.Op == OSub && a.Args[1] == b {
			return a.Args[0]
		}
	case OSub:
		if b.IsConst() && b.Val == 0 {
			return a
		}
		if a == b {
			return ts.Const(w, 0)
		}
		if b.IsConst() {
			return ts.bin(OAdd, a, ts.Const(w, -b.Val))
		}
		// (x + y) - y = x ; (x+y)-x = y
		if a.Op == OAdd {
			if a.Args[1] == b {
				return a.Args[0]
			}
			if a.Args[0] == b {
				return a.Args[1]
			}
			// (x + c) - (x + d)
			if b.Op == OAdd && a.Args[0] == b.Args[0] {
				return ts.bin(OSub, a.Args[1], b.Args[1])
			}
			// (x + c1) - (y + c2) = (x - y) + (c1 - c2)
			if b.Op == OAdd && a.Args[1].IsConst() && b.Args[1].IsConst() {
				return ts.bin(OAdd, ts.bin(OSub, a.Args[0], b.Args[0]), ts.Const(w, a.Args[1].Val-b.Args[1].Val))
			}
		}
	case OMul:
		if a.IsConst() && !b.IsConst() {
			return ts.bin(OMul, b, a)
		}
		if b.IsConst() {
			if b.Val == 0 {
				return b
			}
			if b.Val == 1 {
				return a
			}
		}
	case OAnd:
		if a == b {
			return a
		}
		if a.IsConst() && !b.IsConst() {
			return ts.bin(OAnd, b, a)
		}
		if b.IsConst() {
			if b.Val == 0 {
				return b
			}
			if b.Val == mask(w) {
				return a
			}
		}
	case OOr:
		if a == b {
			return a
		}
		if a.IsConst() && !b.IsConst() {
			return ts.bin(OOr, b, a)
		}
		if b.IsConst() {
			if b.Val == 0 {
				return a
			}
			if b.Val == mask(w) {
				return b
			}
		}
	case OXor:
		if a == b {
			return ts.Const(w, 0)
		}
		if b.IsConst() && b.Val == 0 {
			return a
		}
		if a.IsConst() && a.Val == 0 {
			return b
		}
	case OShl, OLShr, OAShr:
		if b.IsConst() && b.Val == 0 {
			return a
		}
		if a.IsConst() && a.Val == 0 {
			return a
		}
		if b.IsConst() && b.Val >= uint64(w) && op != OAShr {
			return ts.Const(w, 0)
		}
		// lshr of zext'd value by >= inner width
		if op == OLShr && b.IsConst() && a.Op == OZext && b.Val >= uint64(a.Args[0].Sort.W) {
			return ts.Const(w, 0)
		}
	case OUDiv:
		if b.IsConst() && b.Val == 1 {
			return a
		}
	case OURem:
		if b.IsConst() && b.Val == 1 {
			return ts.Const(w, 0)
		}
	}
	// push binary ops with a constant into ite of constants (keeps ite-chains foldable)
	if b.IsConst() && a.Op == OIte && a.Args[1].IsConst() && a.Args[2].IsConst() {
		return ts.Ite(a.Args[0], ts.bin(op, a.Args[1], b), ts.bin(op, a.Args[2], b))
	}
	return ts.mk(&Term{Op: op, Sort: a.Sort, Args: []*Term{a, b}})
}

func foldBin(op Op, w int, x, y uint64) (uint64, bool) {
	m := mask(w)
	switch op {
	case OAdd:
		return (x + y) & m, true
	case OSub:
		return (x - y) & m, true
	case OMul:
		return (x * y) & m, true
	case OAnd:
		return x & y, true
	case OOr:
		return x | y, true
	case OXor:
		return x ^ y, true
	case OUDiv:
		if y == 0 {
			return m, true
		}
		return x / y, true
	case OURem:
		if y == 0 {
			return x, true
		}
		return x % y, true
	case OSDiv:
		sx, sy := sext64(x, w), sext64(y, w)
		if sy == 0 {
			if sx < 0 {
				return 1, true
			}
			return m, true
		}
		if sy == -1 {
			return uint64(-sx) & m, true
		}
		return uint64(sx/sy) & m, true
	case OSRem:
		sx, sy := sext64(x, w), sext64(y, w)
		if sy == 0 {
			return x, true
		}
		if sy == -1 {
			return 0, true
		}
		return uint64(sx%sy) & m, true
	case OShl:
		if y >= uint64(w) {
			return 0, true
		}
		return (x << y) & m, true
	case OLShr:
		if y >= uint64(w) {
			return 0, true
		}
		return x >> y, true
	case OAShr:
		sx := sext64(x, w)
		if y >= uint64(w) {
			y = uint64(w - 1)
		}
		return uint64(sx>>y) & m, true
	}
	return 0, false
}

func (ts *TermStore) Add(a, b *Term) *Term   { return ts.bin(OAdd, a, b) }
func (ts *TermStore) Sub(a, b *Term) *Term   { return ts.bin(OSub, a, b) }
func (ts *TermStore) Mul(a, b *Term) *Term   { return ts.bin(OMul, a, b) }
func (ts *TermStore) BvAnd(a, b *Term) *Term { return ts.bin(OAnd, a, b) }
func (ts *TermStore) BvOr(a, b *Term) *Term  { return ts.bin(OOr, a, b) }
func (ts *TermStore) BvXor(a, b *Term) *Term { return ts.bin(OXor, a, b) }

func (ts *TermStore) BvNot(a *Term) *Term {
	if a.IsConst() {
		return ts.Const(a.Sort.W, ^a.Val)
	}
	if a.Op == ONot {
		return a.Args[0]
	}
	return ts.mk(&Term{Op: ONot, Sort: a.Sort, Args: []*Term{a}})
}
func (ts *TermStore) BvNeg(a *Term) *Term {
	if a.IsConst() {
		return ts.Const(a.Sort.W, -a.Val)
	}
	return ts.mk(&Term{Op: ONeg, Sort: a.Sort, Args: []*Term{a}})
}

func (ts *TermStore) Extract(a *Term, hi, lo int) *Term {
	w := hi - lo + 1
	if lo == 0 && w == a.Sort.W {
		return a
	}
	if a.IsConst() {
		return ts.Const(w, a.Val>>uint(lo))
	}
	switch a.Op {
	case OZext:
		iw := a.Args[0].Sort.W
		if hi < iw {
			return ts.Extract(a.Args[0], hi, lo)
		}
		if lo >= iw {
			return ts.Const(w, 0)
		}
		if lo == 0 {
			return ts.Zext(a.Args[0], w)
		}
	case OSext:
		iw := a.Args[0].Sort.W
		if hi < iw {
			return ts.Extract(a.Args[0], hi, lo)
		}
		if lo == 0 {
			return ts.Sext(a.Args[0], w)
		}
	case OExtract:
		return ts.Extract(a.Args[0], hi+a.P1, lo+a.P1)
	case OConcat:
		lw := a.Args[1].Sort.W
		if hi < lw {
			return ts.Extract(a.Args[1], hi, lo)
		}
		if lo >= lw {
			return ts.Extract(a.Args[0], hi-lw, lo-lw)
		}
	case OIte:
		if a.Args[1].IsConst() && a.Args[2].IsConst() {
			return ts.Ite(a.Args[0], ts.Extract(a.Args[1], hi, lo), ts.Extract(a.Args[2], hi, lo))
		}
	case OAnd, OOr, OXor:
		if lo == 0 || a.Args[1].IsConst() {
			return ts.bin(a.Op, ts.Extract(a.Args[0], hi, lo), ts.Extract(a.Args[1], hi, lo))
		}
	case OAdd, OSub, OMul:
		if lo == 0 {
			return ts.bin(a.Op, ts.Extract(a.Args[0], hi, 0), ts.Extract(a.Args[1], hi, 0))
		}
	case OLShr:
		// extract low bits of (x >> c) where x = zext/any: becomes extract of x
		if a.Args[1].IsConst() {
			c := int(a.Args[1].Val)
			if hi+c < a.Sort.W {
				return ts.Extract(a.Args[0], hi+c, lo+c)
			}
		}
	case OShl:
		if a.Args[1].IsConst() {
			c := int(a.Args[1].Val)
			if lo >= c {
				return ts.Extract(a.Args[0], hi-c, lo-c)
			}
			if hi < c {
				return ts.Const(w, 0)
			}
		}
	}
	return ts.mk(&Term{Op: OExtract, Sort: BV(w), Args: []*Term{a}, P0: hi, P1: lo})
}

func (ts *TermStore) Zext(a *Term, w int) *Term {
	if w == a.Sort.W {
		return a
	}
	if w < a.Sort.W {
		return ts.Extract(a, w-1, 0)
	}
	if a.IsConst() {
		return ts.Const(w, a.Val)
	}
	if a.Op == OZext {
		return ts.Zext(a.Args[0], w)
	}
	if a.Op == OIte && a.Args[1].IsConst() && a.Args[2].IsConst() {
		return ts.Ite(a.Args[0], ts.Zext(a.Args[1], w), ts.Zext(a.Args[2], w))
	}
	return ts.mk(&Term{Op: OZext, Sort: BV(w), Args: []*Term{a}, P0: w - a.Sort.W})
}

func (ts *TermStore) Sext(a *Term, w int) *Term {
	if w == a.Sort.W {
		return a
	}
	if w < a.Sort.W {
		return ts.Extract(a, w-1, 0)
	}
	if a.IsConst() {
		return ts.Const(w, uint64(sext64(a.Val, a.Sort.W)))
	}
	if a.Op == OZext {
		// sign bit known zero
		return ts.Zext(a.Args[0], w)
	}
	if a.Op == OIte && a.Args[1].IsConst() && a.Args[2].IsConst() {
		return ts.Ite(a.Args[0], ts.Sext(a.Args[1], w), ts.Sext(a.Args[2], w))
	}
	return ts.mk(&Term{Op: OSext, Sort: BV(w), Args: []*Term{a}, P0: w - a.Sort.W})
}

func (ts *TermStore) Concat(hi, lo *Term) *Term {
	w := hi.Sort.W + lo.Sort.W
	if hi.IsConst() && lo.IsConst() {
		return ts.Const(w, hi.Val<<uint(lo.Sort.W)|lo.Val)
	}
	if hi.IsConst() && hi.Val == 0 {
		return ts.Zext(lo, w)
	}
	return ts.mk(&Term{Op: OConcat, Sort: BV(w), Args: []*Term{hi, lo}})
}

// ---------- Bool builders ----------

func (ts *TermStore) Not(a *Term) *Term {
	if a.Sort.K != SBool {
		panic("Not on non-bool")
	}
	if a.IsConst() {
		return ts.Bool(a.Val == 0)
	}
	if a.Op == OBNot {
		return a.Args[0]
	}
	return ts.mk(&Term{Op: OBNot, Sort: BoolSort, Args: []*Term{a}})
}

func (ts *TermStore) AndN(xs ...*Term) *Term {
	var out []*Term
	seen := map[int]bool{}
	for _, x := range xs {
		if x.IsFalse() {
			return x
		}
		if x.IsTrue() {
			continue
		}
		if x.Op == OBAnd {
			for _, y := range x.Args {
				if !seen[y.id] {
					seen[y.id] = true
					out = append(out, y)
				}
			}
			continue
		}
		if !seen[x.id] {
			seen[x.id] = true
			out = append(out, x)
		}
	}
	for _, x := range out {
		if x.Op == OBNot && seen[x.Args[0].id] {
			return ts.Bool(false)
		}
	}
	if len(out) == 0 {
		return ts.Bool(true)
	}
	if len(out) == 1 {
		return out[0]
	}
	return ts.mk(&Term{Op: OBAnd, Sort: BoolSort, Args: out})
}

func (ts *TermStore) OrN(xs ...*Term) *Term {
	var out []*Term
	seen := map[int]bool{}
	for _, x := range xs {
		if x.IsTrue() {
			return x
		}
		if x.IsFalse() {
			continue
		}
		if x.Op == OBOr {
			for _, y := range x.Args {
				if !seen[y.id] {
					seen[y.id] = true
					out = append(out, y)
				}
			}
			continue
		}
		if !seen[x.id] {
			seen[x.id] = true
			out = append(out, x)
		}
	}
	for _, x := range out {
		if x.Op == OBNot && seen[x.Args[0].id] {
			return ts.Bool(true)
		}
	}
	if len(out) == 0 {
		return ts.Bool(false)
	}
	if len(out) == 1 {
		return out[0]
	}
	return ts.mk(&Term{Op: OBOr, Sort: BoolSort, Args: out})
}

func (ts *TermStore) And(a, b *Term) *Term { return ts.AndN(a, b) }
func (ts *TermStore) Or(a, b *Term) *Term  { return ts.OrN(a, b) }
func (ts *TermStore) Implies(a, b *Term) *Term {
	return ts.OrN(ts.Not(a), b)
}

func (ts *TermStore) Ite(c, a, b *Term) *Term {
	if c.IsTrue() {
		return a
	}
	if c.IsFalse() {
		return b
	}
	if a == b {
		return a
	}
	if a.Sort != b.Sort {
		panic(fmt.Sprintf("ite sort mismatch %v %v", a.Sort, b.Sort))
	}
	if a.Sort.K == SBool {
		if a.IsTrue() && b.IsFalse() {
			return c
		}
		if a.IsFalse() && b.IsTrue() {
			return ts.Not(c)
		}
		if a.IsTrue() {
			return ts.Or(c, b)
		}
		if a.IsFalse() {
			return ts.And(ts.Not(c), b)
		}
		if b.IsTrue() {
			return ts.Or(ts.Not(c), a)
		}
		if b.IsFalse() {
			return ts.And(c, a)
		}
	}
	if c.Op == OBNot {
		return ts.Ite(c.Args[0], b, a)
	}
	// ite(c, x, ite(c, y, z)) = ite(c, x, z)
	if b.Op == OIte && b.Args[0] == c {
		return ts.Ite(c, a, b.Args[2])
	}
	if a.Op == OIte && a.Args[0] == c {
		return ts.Ite(c, a.Args[1], b)
	}
	return ts.mk(&Term{Op: OIte, Sort: a.Sort, Args: []*Term{c, a, b}})
}

func (ts *TermStore) Eq(a, b *Term) *Term {
	if a == b {
		return ts.Bool(true)
	}
	if a.Sort != b.Sort {
		panic(fmt.Sprintf("eq sort mismatch %v %v", a.Sort, b.Sort))
	}
	if a.IsConst() && b.IsConst() {
		return ts.Bool(a.Val == b.Val)
	}
	if a.Sort.K == SBool {
		if a.IsConst() {
			a, b = b, a
		}
		if b.IsTrue() {
			return a
		}
		if b.IsFalse() {
			return ts.Not(a)
		}
	}
	if a.IsConst() {
		a, b = b, a
	}
	if b.IsConst() && a.Sort.K == SBV {
		switch a.Op {
		case OIte:
			// (= (ite c x y) k): fold when a branch is a constant
			x, y := a.Args[1], a.Args[2]
			if x.IsConst() || y.IsConst() {
				return ts.Ite(a.Args[0], ts.Eq(x, b), ts.Eq(y, b))
			}
		case OZext:
			iw := a.Args[0].Sort.W
			if b.Val>>uint(iw) != 0 {
				return ts.Bool(false)
			}
			return ts.Eq(a.Args[0], ts.Const(iw, b.Val))
		case OAdd:
			if a.Args[1].IsConst() {
				return ts.Eq(a.Args[0], ts.Const(a.Sort.W, b.Val-a.Args[1].Val))
			}
		case OConcat:
			lw := a.Args[1].Sort.W
			return ts.And(ts.Eq(a.Args[0], ts.Const(a.Args[0].Sort.W, b.Val>>uint(lw))),
				ts.Eq(a.Args[1], ts.Const(lw, b.Val)))
		}
	}
	if a.Sort.K == SBV && a.Op == OZext && b.Op == OZext && a.Args[0].Sort == b.Args[0].Sort {
		return ts.Eq(a.Args[0], b.Args[0])
	}
	if a.id > b.id {
		a, b = b, a
	}
	return ts.mk(&Term{Op: OEq, Sort: BoolSort, Args: []*Term{a, b}})
}

func (ts *TermStore) cmp(op Op, a, b *Term) *Term {
	if a.Sort != b.Sort {
		panic(fmt.Sprintf("cmp sort mismatch %v %v", a.Sort, b.Sort))
	}
	w := a.Sort.W
	if a.IsConst() && b.IsConst() {
		switch op {
		case OUlt:
			return ts.Bool(a.Val < b.Val)
		case OUle:
			return ts.Bool(a.Val <= b.Val)
		case OSlt:
			return ts.Bool(sext64(a.Val, w) < sext64(b.Val, w))
		case OSle:
			return ts.Bool(sext64(a.Val, w) <= sext64(b.Val, w))
		}
	}
	if a == b {
		return ts.Bool(op == OUle || op == OSle)
	}
	switch op {
	case OUlt:
		if b.IsConst() && b.Val == 0 {
			return ts.Bool(false)
		}
		if a.IsConst() && a.Val == mask(w) {
			return ts.Bool(false)
		}
	case OUle:
		if a.IsConst() && a.Val == 0 {
			return ts.Bool(true)
		}
		if b.IsConst() && b.Val == mask(w) {
			return ts.Bool(true)
		}
	}
	// zext-narrowing
	if a.Op == OZext && b.Op == OZext && a.Args[0].Sort == b.Args[0].Sort {
		switch op {
		case OUlt, OSlt:
			return ts.cmp(OUlt, a.Args[0], b.Args[0])
		case OUle, OSle:
			return ts.cmp(OUle, a.Args[0], b.Args[0])
		}
	}
	if a.Op == OZext && b.IsConst() {
		iw := a.Args[0].Sort.W
		sb := sext64(b.Val, w)
		signed := op == OSlt || op == OSle
		if signed && sb < 0 {
			return ts.Bool(false)
		}
		if b.Val > mask(iw) {
			return ts.Bool(true)
		}
		nb := ts.Const(iw, b.Val)
		if op == OUlt || op == OSlt {
			return ts.cmp(OUlt, a.Args[0], nb)
		}
		return ts.cmp(OUle, a.Args[0], nb)
	}
	if b.Op == OZext && a.IsConst() {
		iw := b.Args[0].Sort.W
		sa := sext64(a.Val, w)
		signed := op == OSlt || op == OSle
		if signed && sa < 0 {
			return ts.Bool(true)
		}
		if a.Val > mask(iw) {
			return ts.Bool(false)
		}
		na := ts.Const(iw, a.Val)
		if op == OUlt || op == OSlt {
			return ts.cmp(OUlt, na, b.Args[0])
		}
		return ts.cmp(OUle, na, b.Args[0])
	}
	// ite with const branches
	if b.IsConst() && a.Op == OIte && a.Args[1].IsConst() && a.Args[2].IsConst() {
		return ts.Ite(a.Args[0], ts.cmp(op, a.Args[1], b), ts.cmp(op, a.Args[2], b))
	}
	if a.IsConst() && b.Op == OIte && b.Args[1].IsConst() && b.Args[2].IsConst() {
		return ts.Ite(b.Args[0], ts.cmp(op, a, b.Args[1]), ts.cmp(op, a, b.Args[2]))
	}
	return ts.mk(&Term{Op: op, Sort: BoolSort, Args: []*Term{a, b}})
}

func (ts *TermStore) Ult(a, b *Term) *Term { return ts.cmp(OUlt, a, b) }
func (ts *TermStore) Ule(a, b *Term) *Term { return ts.cmp(OUle, a, b) }
func (ts *TermStore) Slt(a, b *Term) *Term { return ts.cmp(OSlt, a, b) }
func (ts *TermStore) Sle(a, b *Term) *Term { return ts.cmp(OSle, a, b) }

// generic n-ary op constructor used by FP / Int layers (no folding except consts where cheap)
func (ts *TermStore) App(op Op, s Sort, p0 int, args ...*Term) *Term {
	return ts.mk(&Term{Op: op, Sort: s, Args: args, P0: p0})
}

func (ts *TermStore) FPConst(w int, bits uint64) *Term {
	return globalConst(OFPConst, Sort{SFP, w}, bits)
}

func (ts *TermStore) IntConst(v *big.Int) *Term {
	return ts.mk(&Term{Op: OIConst, Sort: Sort{SInt, 0}, Name: v.String()})
}

func (ts *TermStore) UF(name string, res Sort, args ...*Term) *Term {
	if _, ok := ts.UFs[name]; !ok {
		var sb strings.Builder
		sb.WriteString("(declare-fun " + name + " (")
		for i, a := range args {
			if i > 0 {
				sb.WriteByte(' ')
			}
			sb.WriteString(a.Sort.String())
		}
		sb.WriteString(") " + res.String() + ")")
		ts.UFs[name] = sb.String()
		ts.ufOrd = append(ts.ufOrd, name)
	}
	return ts.mk(&Term{Op: OUF, Sort: res, Args: args, Name: name})
}

// ---------- printing ----------

var opNames = map[Op]string{
	OAdd: "bvadd", OSub: "bvsub", OMul: "bvmul", OUDiv: "bvudiv", OURem: "bvurem",
	OSDiv: "bvsdiv", OSRem: "bvsrem", OAnd: "bvand", OOr: "bvor", OXor: "bvxor",
	ONot: "bvnot", ONeg: "bvneg", OShl: "bvshl", OLShr: "bvlshr", OAShr: "bvashr",
	OConcat: "concat", OIte: "ite", OEq: "=", OUlt: "bvult", OUle: "bvule",
	OSlt: "bvslt", OSle: "bvsle", OBAnd: "and", OBOr: "or", OBNot: "not",
	OFPNeg: "fp.neg", OFPAbs: "fp.abs", OFPLt: "fp.lt", OFPLe: "fp.leq", OFPEq: "fp.eq",
	OFPIsNaN: "fp.isNaN",
	OIAdd:    "+", OISub: "-", OIMul: "*", OIDiv: "div", OIMod: "mod", OILt: "<", OILe: "<=",
	OINeg: "-", OToReal: "to_real", ORDiv: "/", OBV2Nat: "bv2nat",
}

var rmNames = []string{"RNE", "RNA", "RTP", "RTN", "RTZ"}

func (t *Term) head() string {
	// returns the SMT expression of t with children referenced by name
	ref := func(a *Term) string { return a.ref() }
	switch t.Op {
	case OConst:
		if t.Sort.K == SBool {
			if t.Val == 1 {
				return "true"
			}
			return "false"
		}
		if t.Sort.W%4 == 0 {
			return fmt.Sprintf("#x%0*x", t.Sort.W/4, t.Val)
		}
		return fmt.Sprintf("#b%0*b", t.Sort.W, t.Val)
	case OVar:
		return "|" + t.Name + "|"
	case OExtract:
		return fmt.Sprintf("((_ extract %d %d) %s)", t.P0, t.P1, ref(t.Args[0]))
	case OZext:
		return fmt.Sprintf("((_ zero_extend %d) %s)", t.P0, ref(t.Args[0]))
	case OSext:
		return fmt.Sprintf("((_ sign_extend %d) %s)", t.P0, ref(t.Args[0]))
	case OFPConst:
		if t.Sort.W == 32 {
			b := uint32(t.Val)
			return fmt.Sprintf("(fp #b%01b #b%08b #b%023b)", b>>31, (b>>23)&0xff, b&0x7fffff)
		}
		b := t.Val
		return fmt.Sprintf("(fp #b%01b #b%011b #b%052b)", b>>63, (b>>52)&0x7ff, b&((1<<52)-1))
	case OFPAdd, OFPSub, OFPMul, OFPDiv:
		n := map[Op]string{OFPAdd: "fp.add", OFPSub: "fp.sub", OFPMul: "fp.mul", OFPDiv: "fp.div"}[t.Op]
		return fmt.Sprintf("(%s RNE %s %s)", n, ref(t.Args[0]), ref(t.Args[1]))
	case OFPRound:
		return fmt.Sprintf("(fp.roundToIntegral %s %s)", rmNames[t.P0], ref(t.Args[0]))
	case OFPFromS:
		eb, sb := fpEbSb(t.Sort.W)
		return fmt.Sprintf("((_ to_fp %d %d) RNE %s)", eb, sb, ref(t.Args[0]))
	case OFPFromU:
		eb, sb := fpEbSb(t.Sort.W)
		return fmt.Sprintf("((_ to_fp_unsigned %d %d) RNE %s)", eb, sb, ref(t.Args[0]))
	case OFPToS:
		return fmt.Sprintf("((_ fp.to_sbv %d) RTZ %s)", t.Sort.W, ref(t.Args[0]))
	case OFPToU:
		return fmt.Sprintf("((_ fp.to_ubv %d) RTZ %s)", t.Sort.W, ref(t.Args[0]))
	case OFPToFP:
		eb, sb := fpEbSb(t.Sort.W)
		return fmt.Sprintf("((_ to_fp %d %d) RNE %s)", eb, sb, ref(t.Args[0]))
	case OFPFromBits:
		eb, sb := fpEbSb(t.Sort.W)
		return fmt.Sprintf("((_ to_fp %d %d) %s)", eb, sb, ref(t.Args[0]))
	case OInt2BV:
		return fmt.Sprintf("((_ int2bv %d) %s)", t.P0, ref(t.Args[0]))
	case OIConst:
		if strings.HasPrefix(t.Name, "(") {
			return t.Name
		}
		if strings.HasPrefix(t.Name, "-") {
			return "(- " + t.Name[1:] + ")"
		}
		return t.Name
	case OUF:
		if len(t.Args) == 0 {
			return t.Name
		}
		var sb strings.Builder
		sb.WriteString("(" + t.Name)
		for _, a := range t.Args {
			sb.WriteByte(' ')
			sb.WriteString(ref(a))
		}
		sb.WriteByte(')')
		return sb.String()
	}
	n, ok := opNames[t.Op]
	if !ok {
		panic(fmt.Sprintf("no printer for op %d", t.Op))
	}
	var sb strings.Builder
	sb.WriteByte('(')
	sb.WriteString(n)
	for _, a := range t.Args {
		sb.WriteByte(' ')
		sb.WriteString(ref(a))
	}
	sb.WriteByte(')')
	return sb.String()
}

func fpEbSb(w int) (int, int) {
	if w == 32 {
		return 8, 24
	}
	return 11, 53
}

func (t *Term) leaf() bool {
	return t.Op == OConst || t.Op == OVar || t.Op == OFPConst || t.Op == OIConst || (t.Op == OUF && len(t.Args) == 0)
}

func (t *Term) ref() string {
	if t.leaf() {
		return t.head()
	}
	return "t" + strconv.Itoa(t.id)
}

// String renders the full term (for samples / debugging); bounded size.
func (t *Term) String() string {
	var sb strings.Builder
	t.str(&sb, 0)
	return sb.String()
}

func (t *Term) str(sb *strings.Builder, depth int) {
	if sb.Len() > 400 {
		sb.WriteString("…")
		return
	}
	if t.leaf() {
		sb.WriteString(t.head())
		return
	}
	switch t.Op {
	case OExtract:
		fmt.Fprintf(sb, "((_ extract %d %d) ", t.P0, t.P1)
	case OZext:
		fmt.Fprintf(sb, "((_ zext %d) ", t.P0)
	case OSext:
		fmt.Fprintf(sb, "((_ sext %d) ", t.P0)
	default:
		n := opNames[t.Op]
		if n == "" {
			n = fmt.Sprintf("op%d", t.Op)
		}
		sb.WriteString("(" + n + " ")
	}
	for i, a := range t.Args {
		if i > 0 {
			sb.WriteByte(' ')
		}
		a.str(sb, depth+1)
	}
	sb.WriteByte(')')
}

// ---------- evaluation under a model ----------

type Model map[string]uint64

// Eval returns (value, ok). ok=false when the term contains something the
// evaluator does not handle (FP, Int, UF).
func (t *Term) Eval(m Model, cache map[int]uint64) (uint64, bool) {
	if v, ok := cache[t.id]; ok {
		return v, true
	}
	var r uint64
	w := t.Sort.W
	arg := func(i int) (uint64, bool) { return t.Args[i].Eval(m, cache) }
	switch t.Op {
	case OConst:
		return t.Val, true
	case OVar:
		if t.Sort.K != SBV && t.Sort.K != SBool {
			return 0, false
		}
		v, ok := m[t.Name]
		if !ok {
			v = 0
		}
		return v & maskS(t.Sort), true
	case OBAnd:
		r = 1
		for i := range t.Args {
			v, ok := arg(i)
			if !ok {
				return 0, false
			}
			if v == 0 {
				r = 0
				break
			}
		}
	case OBOr:
		r = 0
		for i := range t.Args {
			v, ok := arg(i)
			if !ok {
				return 0, false
			}
			if v != 0 {
				r = 1
				break
			}
		}
	case OBNot:
		v, ok := arg(0)
		if !ok {
			return 0, false
		}
		r = 1 - v
	case OIte:
		c, ok := arg(0)
		if !ok {
			return 0, false
		}
		if c != 0 {
			r, ok = arg(1)
		} else {
			r, ok = arg(2)
		}
		if !ok {
			return 0, false
		}
	case OEq:
		if t.Args[0].Sort.K != SBV && t.Args[0].Sort.K != SBool {
			return 0, false
		}
		a, ok1 := arg(0)
		b, ok2 := arg(1)
		if !ok1 || !ok2 {
			return 0, false
		}
		if a == b {
			r = 1
		}
	case OUlt, OUle, OSlt, OSle:
		a, ok1 := arg(0)
		b, ok2 := arg(1)
		if !ok1 || !ok2 {
			return 0, false
		}
		aw := t.Args[0].Sort.W
		var res bool
		switch t.Op {
		case OUlt:
			res = a < b
		case OUle:
			res = a <= b
		case OSlt:
			res = sext64(a, aw) < sext64(b, aw)
		case OSle:
			res = sext64(a, aw) <= sext64(b, aw)
		}
		if res {
			r = 1
		}
	case OAdd, OSub, OMul, OUDiv, OURem, OSDiv, OSRem, OAnd, OOr, OXor, OShl, OLShr, OAShr:
		a, ok1 := arg(0)
		b, ok2 := arg(1)
		if !ok1 || !ok2 {
			return 0, false
		}
		r, _ = foldBin(t.Op, w, a, b)
	case ONot:
		a, ok := arg(0)
		if !ok {
			return 0, false
		}
		r = ^a & mask(w)
	case ONeg:
		a, ok := arg(0)
		if !ok {
			return 0, false
		}
		r = (-a) & mask(w)
	case OExtract:
		a, ok := arg(0)
		if !ok {
			return 0, false
		}
		r = (a >> uint(t.P1)) & mask(w)
	case OZext:
		a, ok := arg(0)
		if !ok {
			return 0, false
		}
		r = a
	case OSext:
		a, ok := arg(0)
		if !ok {
			return 0, false
		}
		r = uint64(sext64(a, t.Args[0].Sort.W)) & mask(w)
	case OConcat:
		a, ok1 := arg(0)
		b, ok2 := arg(1)
		if !ok1 || !ok2 {
			return 0, false
		}
		r = (a<<uint(t.Args[1].Sort.W) | b) & mask(w)
	default:
		return 0, false
	}
	cache[t.id] = r
	return r, true
}

func maskS(s Sort) uint64 {
	if s.K == SBool {
		return 1
	}
	return mask(s.W)
}

var _ = math.Float64bits
