package main

import (
	"encoding/json"
	"flag"
	"fmt"
	"os"
	"path/filepath"
	"runtime"
	"sort"
	"strconv"
	"strings"
	"time"

	"golang.org/x/tools/go/packages"
	"golang.org/x/tools/go/ssa"
	"golang.org/x/tools/go/ssa/ssautil"
)

type multiFlag []string

func (m *multiFlag) String() string     { return strings.Join(*m, ",") }
func (m *multiFlag) Set(s string) error { *m = append(*m, s); return nil }

type Result struct {
	Entry        string              `json:"entry"`
	Pkg          string              `json:"pkg"`
	Params       map[string]int64    `json:"params"`
	Bounds       map[string]int      `json:"bounds"`
	Paths        int                 `json:"paths"`
	Ends         map[string]int      `json:"ends"`
	EndSamples   map[string][]string `json:"end_samples"`
	Obligations  []*Obligation       `json:"obligations"`
	Covers       map[string]int      `json:"covers"`
	CoversDecl   []string            `json:"covers_declared"`
	Violations   []Violation         `json:"violations"`
	ViolCounts   map[string]int      `json:"violation_counts"`
	Funcs        map[string]int      `json:"functions_encoded"`
	Steps        int64               `json:"ssa_instructions_executed"`
	Branches     int64               `json:"symbolic_branches"`
	Queries      map[string]int      `json:"queries"`
	SolverS      float64             `json:"solver_s"`
	SolverErrs   int                 `json:"solver_errors"`
	WallS        float64             `json:"wall_s"`
	LoadS        float64             `json:"load_s"`
	Samples      []string            `json:"samples"`
	Stubs        map[string]int      `json:"stubs"`
	Assumes      map[string]int      `json:"assumes"`
	DistinctSig  int                 `json:"distinct_path_signatures"`
	Stopped      string              `json:"stopped,omitempty"`
	Unsupported  map[string]int      `json:"unsupported"`
	MustFail     map[string]int      `json:"must_fail_sat"`
	MustFailDecl []string            `json:"must_fail_declared"`
	Twins        map[string][]map[string]interface{} `json:"twins,omitempty"`
	Notes        map[string]int      `json:"notes"`
	Solver       string              `json:"solver"`
	Verdict      string              `json:"verdict"`
	Reasons      []string            `json:"reasons"`
}

func main() {
	var (
		repo      = flag.String("repo", "/repo", "repository root")
		pkgPath   = flag.String("pkg", "", "package dir relative to repo (e.g. pkg/format/rtph264, or . )")
		harness   = flag.String("harness", "", "directory with harness .go files to overlay into the package")
		prelude   = flag.String("prelude", "", "prelude template file")
		entry     = flag.String("entry", "", "harness entry function")
		out       = flag.String("out", "", "result json")
		unwind    = flag.Int("unwind", 64, "loop unwinding bound per frame and block")
		maxSteps  = flag.Int("maxsteps", 5000000, "SSA instruction budget per path")
		maxPaths  = flag.Int("maxpaths", 200000, "path budget")
		maxAlloc  = flag.Int("maxalloc", 4096, "physical size limit for symbolic-length allocations")
		qtimeout  = flag.Int("qtimeout", 10000, "per-query timeout ms")
		solver    = flag.String("solver", "z3-new", "z3 | z3-new | cvc5 | cvc5-int")
		workers   = flag.Int("workers", runtime.NumCPU(), "parallel workers")
		mapperm   = flag.Bool("mapperm", false, "nondeterministic map iteration order")
		slack     = flag.Int("appendslack", 0, "extra capacity on append reallocation")
		fpreal    = flag.Bool("fpreal", false, "float64 as ideal reals with absolute rounding error (see fpreal.go)")
		concoff   = flag.Bool("concoff", false, "case-split symbolic slice offsets")
		verbose   = flag.Bool("v", false, "verbose / crash on engine errors")
		maxViol   = flag.Int("maxviol", 20, "max violations recorded")
		slog      = flag.String("solverlog", "", "write worker-0 solver input to file")
		deadline  = flag.Int("deadline", 0, "wall-clock budget seconds (0 = none)")
		allowEnds = flag.String("allow", "", "comma-separated path-end kinds accepted as outside-claim (e.g. blocked,unsupported)")
		params    multiFlag
	)
	flag.Var(&params, "D", "harness parameter name=value (repeatable)")
	var extras multiFlag
	flag.Var(&extras, "extra", "additional overlay: <pkg dir relative to repo>=<directory with .go files> (plain Go helpers, no prelude; repeatable)")
	flag.Parse()
	os.Setenv("PATH", "/opt/veriftools/go1.26.8/bin:"+os.Getenv("PATH"))
	os.Setenv("GOTOOLCHAIN", "local")
	os.Setenv("GOPROXY", "off")
	os.Unsetenv("GOFLAGS")

	t0 := time.Now()
	pm := map[string]int64{}
	for _, p := range params {
		kv := strings.SplitN(p, "=", 2)
		v, err := strconv.ParseInt(kv[1], 0, 64)
		if err != nil {
			fatal("bad -D " + p)
		}
		pm[kv[0]] = v
	}
	pkgDir := filepath.Join(*repo, *pkgPath)
	overlay := map[string][]byte{}
	pkgName := ""
	if *harness != "" {
		ents, err := os.ReadDir(*harness)
		if err != nil {
			fatal(err.Error())
		}
		for _, e := range ents {
			if !strings.HasSuffix(e.Name(), ".go") || strings.HasSuffix(e.Name(), "_test.go") {
				continue
			}
			b, err := os.ReadFile(filepath.Join(*harness, e.Name()))
			if err != nil {
				fatal(err.Error())
			}
			overlay[filepath.Join(pkgDir, e.Name())] = b
			for _, line := range strings.Split(string(b), "\n") {
				if strings.HasPrefix(line, "package ") {
					pkgName = strings.TrimSpace(strings.TrimPrefix(line, "package "))
					break
				}
			}
		}
	}
	for _, ex := range extras {
		kv := strings.SplitN(ex, "=", 2)
		if len(kv) != 2 {
			fatal("bad -extra " + ex)
		}
		ents, err := os.ReadDir(kv[1])
		if err != nil {
			fatal(err.Error())
		}
		for _, e := range ents {
			if strings.HasSuffix(e.Name(), ".go") {
				b, err := os.ReadFile(filepath.Join(kv[1], e.Name()))
				if err != nil {
					fatal(err.Error())
				}
				overlay[filepath.Join(*repo, kv[0], e.Name())] = b
			}
		}
	}
	if *prelude != "" {
		b, err := os.ReadFile(*prelude)
		if err != nil {
			fatal(err.Error())
		}
		overlay[filepath.Join(pkgDir, "zz_verif_prelude.go")] = []byte(strings.ReplaceAll(string(b), "PACKAGE", pkgName))
	}
	cfg := &packages.Config{
		Mode: packages.NeedName | packages.NeedFiles | packages.NeedCompiledGoFiles | packages.NeedImports |
			packages.NeedDeps | packages.NeedTypes | packages.NeedSyntax | packages.NeedTypesInfo | packages.NeedTypesSizes | packages.NeedModule,
		Dir:     pkgDir,
		Overlay: overlay,
		Env:     os.Environ(),
	}
	initial, err := packages.Load(cfg, ".")
	if err != nil {
		inconclusive(*out, *entry, "load: "+err.Error())
	}
	nerr := 0
	var errs []string
	packages.Visit(initial, nil, func(p *packages.Package) {
		for _, e := range p.Errors {
			nerr++
			if len(errs) < 10 {
				errs = append(errs, e.Error())
			}
		}
	})
	if nerr > 0 {
		inconclusive(*out, *entry, "package errors (harness does not compile against this tree?): "+strings.Join(errs, " | "))
	}
	prog, pkgs := ssautil.AllPackages(initial, ssa.InstantiateGenerics)
	prog.Build()
	loadS := time.Since(t0).Seconds()
	var results []*Result
	worst := 0
	for _, ent := range strings.Split(*entry, ",") {
		res := runEntry(prog, pkgs, ent, *pkgPath, pm, loadS, runOpts{unwind: *unwind, maxSteps: *maxSteps, maxPaths: *maxPaths, maxAlloc: *maxAlloc,
			qtimeout: *qtimeout, solver: *solver, workers: *workers, mapperm: *mapperm, fpreal: *fpreal, concoff: *concoff,slack: *slack, verbose: *verbose, maxViol: *maxViol,
			slog: *slog, deadline: *deadline, allowEnds: *allowEnds})
		results = append(results, res)
		code := 0
		switch res.Verdict {
		case "violation":
			code = 1
		case "inconclusive":
			code = 2
		}
		if code == 1 || (code == 2 && worst == 0) {
			worst = code
		}
	}
	b, _ := json.MarshalIndent(results, "", " ")
	if *out != "" {
		os.WriteFile(*out, b, 0o644)
	}
	os.Exit(worst)
}

type runOpts struct {
	unwind, maxSteps, maxPaths, maxAlloc, qtimeout, workers, slack, maxViol, deadline int
	solver, slog, allowEnds                                                            string
	mapperm, verbose, fpreal, concoff                                                  bool
}

func runEntry(prog *ssa.Program, pkgs []*ssa.Package, entry, pkgPath string, pm map[string]int64, loadS float64, o runOpts) *Result {
	t0 := time.Now()
	var entryFn *ssa.Function
	for _, p := range pkgs {
		if p == nil {
			continue
		}
		if f := p.Func(entry); f != nil {
			entryFn = f
		}
	}
	if entryFn == nil {
		fmt.Println(entry + ": inconclusive: entry function not found")
		return &Result{Entry: entry, Verdict: "inconclusive", Reasons: []string{"entry function not found"}}
	}
	c := Config{Unwind: o.unwind, MaxSteps: o.maxSteps, MaxPaths: o.maxPaths, MaxAlloc: o.maxAlloc, QTimeoutMs: o.qtimeout,
		Solver: o.solver, Workers: o.workers, Params: pm, MapPerm: o.mapperm, FPReal: o.fpreal, ConcOff: o.concoff, AllowUnwind: strings.Contains(","+o.allowEnds+",", ",unwind,"),AppendSlack: o.slack, Verbose: o.verbose,
		MaxViol: o.maxViol, SolverLog: o.slog}
	if o.deadline > 0 {
		c.Deadline = time.Now().Add(time.Duration(o.deadline) * time.Second)
	}
	eng := NewEngine(prog, entryFn, c)
	eng.Run()

	res := &Result{Entry: entry, Pkg: pkgPath, Params: pm,
		Bounds: map[string]int{"unwind": o.unwind, "maxalloc": o.maxAlloc, "qtimeout_ms": o.qtimeout, "maxpaths": o.maxPaths, "maxsteps": o.maxSteps},
		Paths:  eng.paths, Ends: eng.ends, EndSamples: eng.endSamples, Covers: eng.covers, Violations: eng.viols,
		ViolCounts: eng.violSeen, Funcs: eng.funcs, Steps: eng.steps, Branches: eng.branches,
		Queries: map[string]int{"unsat": eng.queries[Unsat], "sat": eng.queries[Sat], "unknown": eng.queries[Unknown]},
		SolverS: eng.solverTime.Seconds(), SolverErrs: eng.solverErrs, WallS: time.Since(t0).Seconds(), LoadS: loadS,
		Samples: eng.samples, Stubs: eng.stubs, Assumes: eng.assumes, DistinctSig: len(eng.sigs), Stopped: eng.stopReason,
		Unsupported: eng.unsupported, MustFail: eng.mustFailSat, Notes: eng.notes, Solver: o.solver}
	for k := range eng.coverDecl {
		res.CoversDecl = append(res.CoversDecl, k)
	}
	sort.Strings(res.CoversDecl)
	for k := range eng.expectFail {
		res.MustFailDecl = append(res.MustFailDecl, k)
	}
	sort.Strings(res.MustFailDecl)
	res.Twins = eng.twinVec
	var tags []string
	for k := range eng.oblig {
		tags = append(tags, k)
	}
	sort.Strings(tags)
	for _, k := range tags {
		res.Obligations = append(res.Obligations, eng.oblig[k])
	}
	// drop zero-count function entries
	for k, v := range res.Funcs {
		if v == 0 {
			delete(res.Funcs, k)
		}
	}
	// verdict
	allowed := map[string]bool{"ok": true, "infeasible": true}
	for _, a := range strings.Split(o.allowEnds, ",") {
		if a != "" {
			allowed[a] = true
		}
	}
	verdict := "pass"
	var reasons []string
	if len(eng.viols) > 0 {
		verdict = "violation"
		for k, n := range eng.violSeen {
			reasons = append(reasons, fmt.Sprintf("violation %s ×%d", k, n))
		}
	}
	inc := func(r string) {
		if verdict == "pass" {
			verdict = "inconclusive"
		}
		reasons = append(reasons, r)
	}
	for k, n := range eng.ends {
		if !allowed[k] && k != "panic" && k != "unwind" && k != "panic-reported" {
			inc(fmt.Sprintf("%d paths ended as %s: %v", n, k, eng.endSamples[k]))
		}
	}
	for _, o := range res.Obligations {
		if o.Unknown > 0 {
			inc(fmt.Sprintf("obligation %s: %d undecided", o.Tag, o.Unknown))
		}
	}
	for _, k := range res.CoversDecl {
		if eng.covers[k] == 0 {
			inc("cover point never reached (vacuity): " + k)
		}
	}
	for _, k := range res.MustFailDecl {
		if eng.mustFailSat[k] == 0 {
			inc("must-fail twin did not fail: " + k)
		}
	}
	if eng.stopReason != "" {
		inc("exploration stopped: " + eng.stopReason)
	}
	if eng.solverErrs > 0 {
		inc(fmt.Sprintf("%d solver errors", eng.solverErrs))
	}
	if eng.notes["fork-unknown-kept"] > 0 {
		reasons = append(reasons, fmt.Sprintf("note: %d branch feasibility checks undecided (both sides kept)", eng.notes["fork-unknown-kept"]))
	}
	sort.Strings(reasons)
	res.Verdict = verdict
	res.Reasons = reasons
	fmt.Printf("%s %s: %s paths=%d oblig=%d viol=%d wall=%.1fs solver=%.1fs q=%v\n", pkgPath, entry, verdict, eng.paths, len(res.Obligations), len(eng.viols), res.WallS, res.SolverS, res.Queries)
	for _, r := range reasons {
		fmt.Println("   ", r)
	}
	return res
}


func writeResult(path string, res *Result) {
	b, _ := json.MarshalIndent([]*Result{res}, "", " ")
	if path == "" {
		return
	}
	os.WriteFile(path, b, 0o644)
}

func inconclusive(out, entry, why string) {
	res := &Result{Entry: entry, Verdict: "inconclusive", Reasons: []string{why}}
	writeResult(out, res)
	fmt.Println(entry+": inconclusive:", why)
	os.Exit(2)
}

func fatal(s string) {
	fmt.Fprintln(os.Stderr, "gosym:", s)
	os.Exit(3)
}
