package main

// "Ideal arithmetic" abstraction of float64 (option -fpreal): a float64 value
// is an SMT Real; every rounding operation result is a fresh Real within an
// ABSOLUTE error bound derived from a sound magnitude bound of the exact
// result (|r - exact| <= M * 2^-53, the IEEE-754 round-to-nearest guarantee for
// normal, non-overflowing results — listed as an assumption in the evidence);
// rounding to an integer is "an integer within 1/2". This over-approximates
// the set of values the machine can produce, so an `unsat` verdict carries
// over to the real float64 semantics; a `sat` verdict is only trusted after
// native replay (as always).

import (
	"fmt"
	"go/token"
	"math"
	"math/big"
)

var realSort = Sort{SReal, 0}
var intSort = Sort{SInt, 0}

func (in *Interp) fpReal() bool { return in.eng.cfg.FPReal }

func ratString(r *big.Rat) string {
	num, den := r.Num(), r.Denom()
	s := ""
	if num.Sign() < 0 {
		s = fmt.Sprintf("(- (/ %s.0 %s.0))", new(big.Int).Neg(num).String(), den.String())
	} else {
		s = fmt.Sprintf("(/ %s.0 %s.0)", num.String(), den.String())
	}
	return s
}

func (in *Interp) realConst(f float64) *Term {
	r := new(big.Rat)
	r.SetFloat64(f)
	t := in.ts.mk(&Term{Op: OIConst, Sort: realSort, Name: ratString(r)})
	in.rbound(t, math.Abs(f))
	return t
}

func (in *Interp) rbound(t *Term, b float64) {
	if in.rb == nil {
		in.rb = map[int]float64{}
	}
	in.rb[t.id] = b
}

func (in *Interp) rboundOf(t *Term) float64 {
	if b, ok := in.rb[t.id]; ok {
		return b
	}
	return math.Inf(1)
}

// asReal converts an FP constant to the Real representation (other terms are
// already Reals in this mode).
func (in *Interp) asReal(t *Term) *Term {
	if t.Op == OFPConst {
		if t.Sort.W == 32 {
			return in.realConst(float64(math.Float32frombits(uint32(t.Val))))
		}
		return in.realConst(math.Float64frombits(t.Val))
	}
	if t.Sort.K != SReal {
		in.unsupported("fpreal: non-real float operand")
	}
	return t
}

func (in *Interp) rop(op Op, a, b *Term) *Term {
	return in.ts.mk(&Term{Op: op, Sort: realSort, Args: []*Term{a, b}})
}

func (in *Interp) rle(a, b *Term) *Term {
	return in.ts.mk(&Term{Op: OILe, Sort: BoolSort, Args: []*Term{a, b}})
}
func (in *Interp) rlt(a, b *Term) *Term {
	return in.ts.mk(&Term{Op: OILt, Sort: BoolSort, Args: []*Term{a, b}})
}

// rounded returns a fresh Real within M*2^-53 of exact.
func (in *Interp) rounded(exact *Term, M float64) *Term {
	if math.IsInf(M, 1) || M > 1e300 {
		in.unsupported("fpreal: no magnitude bound for a floating-point result")
	}
	r := in.freshVar("fp", realSort)
	eps := in.realConst(M * math.Pow(2, -53))
	in.addPC(in.ts.AndN(in.rle(in.rop(OISub, exact, eps), r), in.rle(r, in.rop(OIAdd, exact, eps))))
	in.rbound(r, M*(1+math.Pow(2, -52)))
	in.stub("float64 arithmetic as ideal reals with absolute rounding error M*2^-53 per operation")
	return r
}

func (in *Interp) fpRealBinop(op token.Token, a, b *Term) Value {
	ts := in.ts
	a, b = in.asReal(a), in.asReal(b)
	ba, bb := in.rboundOf(a), in.rboundOf(b)
	switch op {
	case token.ADD:
		return in.rounded(in.rop(OIAdd, a, b), ba+bb)
	case token.SUB:
		return in.rounded(in.rop(OISub, a, b), ba+bb)
	case token.MUL:
		return in.rounded(in.rop(OIMul, a, b), ba*bb)
	case token.QUO:
		// divisor must be a non-zero constant to get a magnitude bound
		if b.Op != OIConst {
			in.unsupported("fpreal: division by a non-constant")
		}
		if bb == 0 {
			in.unsupported("fpreal: division by zero constant")
		}
		return in.rounded(in.rop(ORDiv, a, b), ba/bb)
	case token.EQL:
		return ts.mk(&Term{Op: OEq, Sort: BoolSort, Args: []*Term{a, b}})
	case token.NEQ:
		return ts.Not(ts.mk(&Term{Op: OEq, Sort: BoolSort, Args: []*Term{a, b}}))
	case token.LSS:
		return in.rlt(a, b)
	case token.LEQ:
		return in.rle(a, b)
	case token.GTR:
		return in.rlt(b, a)
	case token.GEQ:
		return in.rle(b, a)
	}
	in.unsupported("fpreal binop " + op.String())
	return nil
}

// int -> float
func (in *Interp) fpRealFromInt(t *Term, signed bool) *Term {
	ts := in.ts
	lo, hi := in.ival(t)
	_ = lo
	var exact *Term
	var M float64
	nat := ts.mk(&Term{Op: OBV2Nat, Sort: intSort, Args: []*Term{t}})
	if signed {
		half := uint64(1) << uint(t.Sort.W-1)
		if hi < half {
			exact = ts.mk(&Term{Op: OToReal, Sort: realSort, Args: []*Term{nat}})
			M = float64(hi)
		} else {
			// two's complement: value = nat - 2^w if nat >= 2^(w-1)
			pw := new(big.Int).Lsh(big.NewInt(1), uint(t.Sort.W))
			hf := new(big.Int).Lsh(big.NewInt(1), uint(t.Sort.W-1))
			pwT := ts.mk(&Term{Op: OIConst, Sort: intSort, Name: pw.String()})
			hfT := ts.mk(&Term{Op: OIConst, Sort: intSort, Name: hf.String()})
			neg := ts.mk(&Term{Op: OISub, Sort: intSort, Args: []*Term{nat, pwT}})
			isNeg := ts.mk(&Term{Op: OILe, Sort: BoolSort, Args: []*Term{hfT, nat}})
			iv := ts.mk(&Term{Op: OIte, Sort: intSort, Args: []*Term{isNeg, neg, nat}})
			exact = ts.mk(&Term{Op: OToReal, Sort: realSort, Args: []*Term{iv}})
			M = math.Pow(2, float64(t.Sort.W-1))
		}
	} else {
		exact = ts.mk(&Term{Op: OToReal, Sort: realSort, Args: []*Term{nat}})
		M = float64(hi)
	}
	if M <= math.Pow(2, 53) {
		in.rbound(exact, M)
		return exact // exactly representable
	}
	return in.rounded(exact, M)
}

// float -> int (truncation toward zero); integer-valued reals convert exactly
func (in *Interp) fpRealToInt(t *Term, w int, signed bool) *Term {
	ts := in.ts
	t = in.asReal(t)
	var k *Term
	if t.Op == OToReal {
		k = t.Args[0]
	} else {
		// fresh integer: truncation toward zero
		k = in.freshVar("trunc", intSort)
		kr := ts.mk(&Term{Op: OToReal, Sort: realSort, Args: []*Term{k}})
		zero := in.realConst(0)
		one := in.realConst(1)
		nonneg := in.rle(zero, t)
		c1 := ts.AndN(in.rle(kr, t), in.rlt(t, in.rop(OIAdd, kr, one)))
		c2 := ts.AndN(in.rle(t, kr), in.rlt(in.rop(OISub, kr, one), t))
		in.addPC(ts.Ite(nonneg, c1, c2))
	}
	// out-of-range conversions are implementation-defined in Go: require range
	bound := in.rboundOf(t)
	lim := math.Pow(2, float64(w))
	if signed {
		lim = math.Pow(2, float64(w-1))
	}
	if !(bound < lim) {
		in.unsupported("fpreal: float->int conversion without a proved range")
	}
	r := ts.mk(&Term{Op: OInt2BV, Sort: BV(w), Args: []*Term{k}, P0: w})
	return r
}

// math.Round / Floor / Ceil / Trunc on a Real
func (in *Interp) fpRealRound(t *Term, mode string) *Term {
	ts := in.ts
	t = in.asReal(t)
	k := in.freshVar("rnd", intSort)
	kr := ts.mk(&Term{Op: OToReal, Sort: realSort, Args: []*Term{k}})
	half := in.realConst(0.5)
	one := in.realConst(1)
	switch mode {
	case "math.Round", "math.RoundToEven":
		in.addPC(ts.AndN(in.rle(in.rop(OISub, t, half), kr), in.rle(kr, in.rop(OIAdd, t, half))))
	case "math.Floor":
		in.addPC(ts.AndN(in.rle(kr, t), in.rlt(t, in.rop(OIAdd, kr, one))))
	case "math.Ceil":
		in.addPC(ts.AndN(in.rle(t, kr), in.rlt(in.rop(OISub, kr, one), t)))
	default:
		in.unsupported("fpreal: " + mode)
	}
	in.rbound(kr, in.rboundOf(t)+1)
	in.stub("math.Round/Floor/Ceil as 'an integer within 1/2 (resp. 1) of the argument'")
	return kr
}
