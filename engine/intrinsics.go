package main

import (
	"fmt"
	"go/types"
	"math"
	"regexp"
	"strings"

	"golang.org/x/tools/go/ssa"
)

func (in *Interp) stub(name string) {
	if in.inInit > 0 {
		return
	}
	in.eng.mu.Lock()
	in.eng.stubs[name]++
	in.eng.mu.Unlock()
}

func (in *Interp) cstr(v Value) string {
	s, ok := in.strConcrete(v.(StrV))
	if !ok {
		in.unsupported("symbolic string where a constant is required")
	}
	return s
}

func (in *Interp) cint(v Value) int64 {
	t := v.(*Term)
	if !t.IsConst() {
		in.unsupported("symbolic int where a constant is required")
	}
	return sext64(t.Val, t.Sort.W)
}

func (in *Interp) nondetScalar(name, kind string, w int) *Term {
	in.nondetSeq++
	var t *Term
	if kind == "bool" {
		t = in.ts.Var(fmt.Sprintf("%s#%d", name, in.nondetSeq), BoolSort)
	} else {
		t = in.ts.Var(fmt.Sprintf("%s#%d", name, in.nondetSeq), BV(w))
	}
	in.nondets = append(in.nondets, nondetRec{Name: name, Kind: kind, Terms: []*Term{t}})
	return t
}

func (in *Interp) nondetBytes(name string, min, max int64, lenOnly bool, physOverride int) (*Obj, *Term) {
	ts := in.ts
	in.nondetSeq++
	seq := in.nondetSeq
	var ln *Term
	if min == max {
		ln = ts.Const(64, uint64(max))
	} else {
		ln = ts.Var(fmt.Sprintf("%s#%d.len", name, seq), BV(64))
		in.assumeX(ts.And(ts.Ule(ts.Const(64, uint64(min)), ln), ts.Ule(ln, ts.Const(64, uint64(max)))), "len range of "+name)
		in.vrange[ln.id] = [2]uint64{uint64(min), uint64(max)}
	}
	var o *Obj
	if lenOnly {
		in.objSeq++
		o = &Obj{id: in.objSeq, elemT: types.Typ[types.Uint8], lenOnly: true, phys: int(max), loCells: map[uint64]*Term{}, loName: fmt.Sprintf("%s#%d", name, seq)}
		in.nondets = append(in.nondets, nondetRec{Name: name, Kind: "bytes", Len: ln, LO: o})
		return o, ln
	}
	o = in.newObj(types.Typ[types.Uint8], int(max))
	terms := make([]*Term, max)
	for i := range o.E {
		t := ts.Var(fmt.Sprintf("%s#%d[%d]", name, seq, i), BV(8))
		o.E[i] = t
		terms[i] = t
	}
	in.nondets = append(in.nondets, nondetRec{Name: name, Kind: "bytes", Terms: terms, Len: ln})
	return o, ln
}

// intrinsic returns (result, true) when fn is intercepted.
func (in *Interp) intrinsic(fn *ssa.Function, args []Value, site *ssa.Call) (Value, bool) {
	ts := in.ts
	name := fn.Name()
	if strings.HasPrefix(name, "zz") && fn.Pkg != nil {
		if r, ok := in.prelude(fn, name, args); ok {
			return r, true
		}
	}
	full := fn.String()
	if fn.Origin() != nil {
		full = fn.Origin().String()
	}
	switch full {
	// ----- bytes / strings / bytealg -----
	case "github.com/bluenviron/gortsplib/v5.cloneFormatShallow":
		// reflect.New(TypeOf(f).Elem()) + Set(ValueOf(f).Elem()): a shallow copy of the
		// struct behind the interface (reflection itself is not executed by the engine)
		iv, ok := args[0].(IfaceV)
		if !ok || iv.T == nil {
			in.end("panic", "cloneFormatShallow of a nil format")
		}
		src, ok := iv.V.(Pointer)
		if !ok || src.P == nil {
			in.unsupported("cloneFormatShallow: format is not a pointer to a struct")
		}
		in.stub("cloneFormatShallow: shallow struct copy (reflection not executed)")
		slot := new(Value)
		*slot = in.copyVal(*src.P)
		return IfaceV{T: iv.T, V: Pointer{P: slot}}, true
	case "crypto/subtle.ConstantTimeCompare":
		// functional contract: 1 iff same length and same bytes (timing is not modelled)
		in.stub(full)
		return ts.Ite(in.seqEq(in.viewOf(args[0]), in.viewOf(args[1])), ts.Const(64, 1), ts.Const(64, 0)), true
	case "bytes.Equal", "internal/bytealg.Equal":
		in.stub(full)
		return in.seqEq(in.viewOf(args[0]), in.viewOf(args[1])), true
	case "bytes.IndexByte", "internal/bytealg.IndexByte", "strings.IndexByte", "internal/bytealg.IndexByteString", "internal/stringslite.IndexByte":
		in.stub(full)
		return in.indexByte(in.viewOf(args[0]), args[1].(*Term)), true
	case "bytes.Index", "internal/bytealg.Index", "strings.Index", "internal/bytealg.IndexString", "internal/stringslite.Index":
		in.stub(full)
		return in.indexSeq(in.viewOf(args[0]), in.viewOf(args[1])), true
	case "bytes.Contains", "strings.Contains":
		in.stub(full)
		r := in.indexSeq(in.viewOf(args[0]), in.viewOf(args[1]))
		return ts.Sle(ts.Const(64, 0), r), true
	case "internal/bytealg.Count", "internal/bytealg.CountString":
		in.stub(full)
		return in.countByte(in.viewOf(args[0]), args[1].(*Term)), true
	case "internal/bytealg.MakeNoZero":
		n := args[0].(*Term)
		return in.makeSlice(types.Typ[types.Uint8], n, n), true
	case "internal/bytealg.Compare", "bytes.Compare":
		in.stub(full)
		a, b := in.seqStr(args[0]), in.seqStr(args[1])
		lt := in.strLess(a, b, false)
		eq := in.strEq(a, b)
		return ts.Ite(eq, ts.Const(64, 0), ts.Ite(lt, ts.Const(64, ^uint64(0)), ts.Const(64, 1))), true
	case "internal/bytealg.LastIndexByte", "internal/bytealg.LastIndexByteString":
		in.stub(full)
		return in.lastIndexByte(in.viewOf(args[0]), args[1].(*Term)), true
	// strconv.FormatFloat / ParseFloat as an inverse pair through an opaque
	// carrier string: the shortest representation ('f', -1, 64) of a float64
	// parses back to exactly that float64 (documented strconv contract); the
	// digits themselves are never inspected (a decimal float contains no ':').
	case "strconv.FormatFloat":
		x := args[0].(*Term)
		if x.Op == OFPConst {
			return nil, false
		}
		if in.cint(args[1]) != 'f' || in.cint(args[2]) != -1 || in.cint(args[3]) != 64 {
			in.unsupported("FormatFloat with symbolic value and a format other than ('f',-1,64)")
		}
		in.stub("strconv.FormatFloat/ParseFloat('f',-1,64) as an inverse pair (shortest representation round-trips exactly)")
		in.objSeq++
		o := &Obj{id: in.objSeq, elemT: types.Typ[types.Uint8], lenOnly: true, phys: 400, fltTag: x}
		ln := in.freshVar("fltlen", BV(64))
		in.assumeX(ts.And(ts.Ule(ts.Const(64, 1), ln), ts.Ule(ln, ts.Const(64, 400))), "FormatFloat length")
		return StrV{O: o, Off: ts.Const(64, 0), Len: ln}, true
	case "strconv.ParseFloat":
		if s, ok := args[0].(StrV); ok && s.O != nil && s.O.fltTag != nil {
			return TupleV{s.O.fltTag, IfaceV{}}, true
		}
		return nil, false
	case "strings.Split":
		if s, ok := args[0].(StrV); ok && s.O != nil && s.O.fltTag != nil {
			o := in.newObj(types.Typ[types.String], 1)
			o.E[0] = s
			one := ts.Const(64, 1)
			return SliceV{o, ts.Const(64, 0), one, one}, true
		}
		return nil, false
	// ----- cryptographic hashes of pkg/auth as uninterpreted, collision-free
	// functions: the hex digest is built from 64-bit uninterpreted words of the
	// (length, bytes) of the input; for every two applications on a path the
	// axiom "equal digests => equal inputs" is added (the cryptographic
	// assumption, stated in the evidence).
	case "github.com/bluenviron/gortsplib/v5/pkg/auth.md5Hex", "github.com/bluenviron/gortsplib/v5/pkg/auth.sha256Hex":
		words := 2
		nm := "md5"
		if strings.HasSuffix(full, "sha256Hex") {
			words = 4
			nm = "sha256"
		}
		if c, ok := in.strConcrete(args[0].(StrV)); ok && in.eng.cfg.Params["HASHNATIVE"] != 0 {
			_ = c
		}
		return in.hashHex(nm, words, args[0].(StrV)), true
	// ----- regexp: compiled natively by the engine; matching runs natively on
	// concrete subjects; a symbolic subject is only supported when a literal
	// byte required by the pattern is provably absent (=> no match).
	case "regexp.MustCompile":
		pat := in.cstr(args[0])
		rt := fn.Signature.Results().At(0).Type()
		slot := new(Value)
		sv := in.zero(rt.(*types.Pointer).Elem()).(*StructV)
		st := under(rt.(*types.Pointer).Elem()).(*types.Struct)
		for i := 0; i < st.NumFields(); i++ {
			if st.Field(i).Name() == "expr" {
				sv.F[i] = StrV{C: pat}
			}
		}
		*slot = sv
		return Pointer{P: slot}, true
	case "(*regexp.Regexp).FindStringSubmatch", "(*regexp.Regexp).MatchString":
		rp := args[0].(Pointer)
		if rp.P == nil {
			in.end("panic", "nil regexp")
		}
		sv := (*rp.P).(*StructV)
		st := under(fn.Signature.Recv().Type().(*types.Pointer).Elem()).(*types.Struct)
		pat := ""
		for i := 0; i < st.NumFields(); i++ {
			if st.Field(i).Name() == "expr" {
				pat = in.cstr(sv.F[i])
			}
		}
		re, err := regexp.Compile(pat)
		if err != nil {
			in.unsupported("regexp does not compile natively: " + pat)
		}
		subj := args[1].(StrV)
		in.stub("regexp: native matching on concrete subjects; symbolic subject only when a required literal is provably absent")
		if c, ok := in.strConcrete(subj); ok {
			if strings.HasSuffix(full, "MatchString") {
				return ts.Bool(re.MatchString(c)), true
			}
			m := re.FindStringSubmatch(c)
			if m == nil {
				z := ts.Const(64, 0)
				return SliceV{nil, z, z, z}, true
			}
			o := in.newObj(types.Typ[types.String], len(m))
			for i, x := range m {
				o.E[i] = StrV{C: x}
			}
			n := ts.Const(64, uint64(len(m)))
			return SliceV{o, ts.Const(64, 0), n, n}, true
		}
		// symbolic subject, anchored pattern with a literal prefix: no match when
		// the subject provably does not start with that prefix
		if prefix, _ := re.LiteralPrefix(); prefix != "" && strings.HasPrefix(pat, "^") {
			v := in.viewOf(subj)
			conds := []*Term{ts.Ule(ts.Const(64, uint64(len(prefix))), v.Len)}
			for k := 0; k < len(prefix); k++ {
				conds = append(conds, ts.Eq(in.viewAt(v, ts.Const(64, uint64(k))), ts.Const(8, uint64(prefix[k]))))
			}
			vd, _ := in.check(ts.AndN(conds...), false, nil)
			if vd != Unsat {
				in.unsupported("regexp match on a symbolic subject that may start with the pattern's literal prefix")
			}
			if strings.HasSuffix(full, "MatchString") {
				return ts.Bool(false), true
			}
			z := ts.Const(64, 0)
			return SliceV{nil, z, z, z}, true
		}
		// symbolic subject: find a literal byte the pattern requires
		req := byte(0)
		if prefix, complete := re.LiteralPrefix(); !complete && prefix == "" {
			for _, b := range []byte("@") {
				if strings.IndexByte(pat, b) >= 0 {
					req = b
				}
			}
		}
		if req == 0 {
			in.unsupported("regexp match on a symbolic subject")
		}
		v := in.viewOf(subj)
		idx := in.indexByte(v, ts.Const(8, uint64(req)))
		absent := ts.Eq(idx, ts.Const(64, ^uint64(0)))
		vd, _ := in.check(ts.Not(absent), false, nil)
		if vd != Unsat {
			in.unsupported("regexp match on a symbolic subject that may contain the required literal")
		}
		if strings.HasSuffix(full, "MatchString") {
			return ts.Bool(false), true
		}
		z := ts.Const(64, 0)
		return SliceV{nil, z, z, z}, true
	case "strings.Clone", "internal/stringslite.Clone":
		return args[0], true
	case "(*strings.Builder).copyCheck", "(*strings.Builder).Grow", "(*bytes.Buffer).Grow":
		return nil, true
	case "internal/abi.NoEscape", "strings.noescape", "internal/abi.Escape":
		return args[0], true
	case "internal/race.Enabled":
		return ts.Bool(false), true

	// ----- fmt / log / errors -----
	case "fmt.Errorf":
		in.stub("fmt.Errorf (opaque non-nil error)")
		return in.opaqueError(args), true
	case "fmt.Sprintf", "fmt.Sprint", "fmt.Sprintln":
		if r, ok := in.sprintf(full, args); ok {
			return r, true
		}
		in.stub(full + " (opaque string)")
		return StrV{C: "<fmt>"}, true
	case "fmt.Println", "fmt.Printf", "fmt.Print", "log.Printf", "log.Println", "log.Print", "fmt.Fprintf", "fmt.Fprintln", "fmt.Fprint":
		in.stub(full + " (no-op)")
		return TupleV{ts.Const(64, 0), IfaceV{}}, true
	case "errors.Is":
		in.stub("errors.Is (identity/unwrap walk)")
		return in.errorsIs(args[0].(IfaceV), args[1].(IfaceV)), true
	case "errors.As":
		in.stub("errors.As (dynamic-type match along the unwrap chain; concrete target types only)")
		return in.errorsAs(args[0].(IfaceV), args[1].(IfaceV)), true

	// ----- sync -----
	case "(*sync.Mutex).Lock", "(*sync.RWMutex).Lock", "(*sync.RWMutex).RLock":
		in.stub("sync locks (sequential semantics, lock state tracked)")
		p := args[0].(Pointer)
		if p.P != nil {
			if in.lockHeld[p.P] && !strings.Contains(full, "RLock") {
				in.end("blocked", "lock acquired twice (self-deadlock)")
			}
			in.lockHeld[p.P] = true
		}
		return nil, true
	case "(*sync.Mutex).Unlock", "(*sync.RWMutex).Unlock", "(*sync.RWMutex).RUnlock":
		p := args[0].(Pointer)
		if p.P != nil {
			delete(in.lockHeld, p.P)
		}
		return nil, true
	case "(*sync.Mutex).TryLock":
		p := args[0].(Pointer)
		if p.P != nil && in.lockHeld[p.P] {
			return ts.Bool(false), true
		}
		in.lockHeld[p.P] = true
		return ts.Bool(true), true
	case "(*sync.Cond).Wait":
		in.stub("sync.Cond.Wait (path ends as blocked)")
		in.events = append(in.events, "cond-wait")
		in.end("blocked", "sync.Cond.Wait")
	case "(*sync.Cond).Broadcast", "(*sync.Cond).Signal":
		in.stub("sync.Cond.Broadcast/Signal (recorded)")
		in.events = append(in.events, "cond-broadcast")
		return nil, true
	case "(*sync.WaitGroup).Add", "(*sync.WaitGroup).Done", "(*sync.WaitGroup).Wait":
		return nil, true
	case "(*sync.Once).Do":
		p := args[0].(Pointer)
		key := p.P
		if in.lockHeld[key] {
			return nil, true
		}
		in.lockHeld[key] = true
		f := args[1].(*Closure)
		in.call(f.Fn, nil, f.Env)
		return nil, true
	case "sync.runtime_registerPoolCleanup", "sync.runtime_notifyListCheck":
		return nil, true

	// ----- atomics -----
	case "sync/atomic.LoadInt32", "sync/atomic.LoadInt64", "sync/atomic.LoadUint32", "sync/atomic.LoadUint64", "sync/atomic.LoadUintptr", "sync/atomic.LoadPointer":
		return in.load(args[0].(Pointer), nil), true
	case "sync/atomic.StoreInt32", "sync/atomic.StoreInt64", "sync/atomic.StoreUint32", "sync/atomic.StoreUint64", "sync/atomic.StoreUintptr", "sync/atomic.StorePointer":
		in.store(args[0].(Pointer), args[1])
		return nil, true
	case "sync/atomic.AddInt32", "sync/atomic.AddInt64", "sync/atomic.AddUint32", "sync/atomic.AddUint64", "sync/atomic.AddUintptr":
		p := args[0].(Pointer)
		old := in.load(p, nil).(*Term)
		nv := ts.Add(old, args[1].(*Term))
		in.store(p, nv)
		return nv, true
	case "sync/atomic.SwapInt32", "sync/atomic.SwapInt64", "sync/atomic.SwapUint32", "sync/atomic.SwapUint64", "sync/atomic.SwapPointer":
		p := args[0].(Pointer)
		old := in.load(p, nil)
		in.store(p, args[1])
		return old, true
	case "sync/atomic.CompareAndSwapInt32", "sync/atomic.CompareAndSwapInt64", "sync/atomic.CompareAndSwapUint32", "sync/atomic.CompareAndSwapUint64", "sync/atomic.CompareAndSwapPointer":
		p := args[0].(Pointer)
		old := in.load(p, nil)
		eq := in.valEq(old, args[1])
		if in.branch(eq, "cas") {
			in.store(p, args[2])
			return ts.Bool(true), true
		}
		return ts.Bool(false), true

	// ----- math -----
	case "math.Float64bits":
		t := args[0].(*Term)
		if t.Op == OFPConst {
			return ts.Const(64, t.Val), true
		}
		if t.Op == OFPFromBits {
			return t.Args[0], true
		}
		// fresh bv constrained to reinterpret
		b := in.freshVar("f64bits", BV(64))
		in.addPC(ts.App(OFPEq, BoolSort, 0, ts.App(OFPFromBits, Sort{SFP, 64}, 0, b), t))
		return b, true
	case "math.Float64frombits":
		t := args[0].(*Term)
		if t.IsConst() {
			return ts.FPConst(64, t.Val), true
		}
		return ts.App(OFPFromBits, Sort{SFP, 64}, 0, t), true
	case "math.Float32bits":
		t := args[0].(*Term)
		if t.Op == OFPConst {
			return ts.Const(32, t.Val), true
		}
		b := in.freshVar("f32bits", BV(32))
		in.addPC(ts.App(OFPEq, BoolSort, 0, ts.App(OFPFromBits, Sort{SFP, 32}, 0, b), t))
		return b, true
	case "math.Float32frombits":
		t := args[0].(*Term)
		if t.IsConst() {
			return ts.FPConst(32, t.Val), true
		}
		return ts.App(OFPFromBits, Sort{SFP, 32}, 0, t), true
	case "math.Round", "math.Floor", "math.Ceil", "math.Trunc", "math.RoundToEven":
		t := args[0].(*Term)
		if t.Op == OFPConst {
			f := math.Float64frombits(t.Val)
			switch full {
			case "math.Round":
				f = math.Round(f)
			case "math.Floor":
				f = math.Floor(f)
			case "math.Ceil":
				f = math.Ceil(f)
			case "math.Trunc":
				f = math.Trunc(f)
			case "math.RoundToEven":
				f = math.RoundToEven(f)
			}
			return ts.FPConst(64, math.Float64bits(f)), true
		}
		if in.fpReal() {
			return in.fpRealRound(t, full), true
		}
		mode := map[string]int{"math.Round": 1, "math.Floor": 3, "math.Ceil": 2, "math.Trunc": 4, "math.RoundToEven": 0}[full]
		return ts.App(OFPRound, t.Sort, mode, t), true
	case "math.Abs":
		t := args[0].(*Term)
		if t.Op == OFPConst {
			return ts.FPConst(64, math.Float64bits(math.Abs(math.Float64frombits(t.Val)))), true
		}
		return ts.App(OFPAbs, t.Sort, 0, t), true
	case "math.IsNaN":
		t := args[0].(*Term)
		if t.Op == OFPConst {
			return ts.Bool(math.IsNaN(math.Float64frombits(t.Val))), true
		}
		return ts.App(OFPIsNaN, BoolSort, 0, t), true

	// ----- runtime / misc -----
	case "runtime.KeepAlive", "runtime.SetFinalizer", "runtime.GC", "runtime.Gosched":
		return nil, true
	case "time.Now":
		in.stub("time.Now (symbolic non-decreasing instant)")
		return in.symbolicNowT(fn.Signature.Results().At(0).Type()), true
	// ----- pion/srtp: cipher and HMAC are not modelled; only the LENGTH logic is
	// (auth tag 10 bytes for AES128_CM_HMAC_SHA1_80, SRTCP index 4 bytes, MKI as
	// configured); the produced bytes are unconstrained.
	case "github.com/pion/srtp/v3.CreateContext":
		in.stub("pion/srtp: CreateContext/EncryptRTP/EncryptRTCP modelled by their output length (payload + 10 [+4 SRTCP index] + len(MKI)), contents unconstrained")
		rt := fn.Signature.Results().At(0).Type()
		slot := new(Value)
		*slot = in.zero(rt.(*types.Pointer).Elem())
		cp := Pointer{P: slot}
		// the per-SSRC state maps exist in a real context (SetROC / ROC run as real code)
		if cst, ok := under(rt.(*types.Pointer).Elem()).(*types.Struct); ok {
			csv := (*slot).(*StructV)
			for i := 0; i < cst.NumFields(); i++ {
				if mt, ok := under(cst.Field(i).Type()).(*types.Map); ok {
					in.uidSeq++
					csv.F[i] = &MapV{KT: mt.Key(), VT: mt.Elem(), id: in.uidSeq}
				}
			}
		}
		if opts, ok := args[3].(SliceV); ok && opts.O != nil {
			n := in.concretize(opts.Len, "srtp opts")
			off := in.concretize(opts.Off, "srtp opts off")
			for k := uint64(0); k < n; k++ {
				if cl, ok := opts.O.E[off+k].(*Closure); ok && cl != nil {
					in.call(cl.Fn, []Value{cp}, cl.Env)
				}
			}
		}
		return TupleV{cp, IfaceV{}}, true
	case "(*github.com/pion/srtp/v3.Context).EncryptRTP", "(*github.com/pion/srtp/v3.Context).EncryptRTCP":
		cp := args[0].(Pointer)
		sv := (*cp.P).(*StructV)
		st := under(fn.Signature.Recv().Type().(*types.Pointer).Elem()).(*types.Struct)
		mkiLen := ts.Const(64, 0)
		for i := 0; i < st.NumFields(); i++ {
			if st.Field(i).Name() == "sendMKI" {
				mkiLen = sv.F[i].(SliceV).Len
			}
		}
		plain := args[2].(SliceV)
		over := uint64(10)
		if strings.HasSuffix(full, "EncryptRTCP") {
			over = 14
		}
		ln := ts.Add(ts.Add(plain.Len, ts.Const(64, over)), mkiLen)
		in.objSeq++
		o := &Obj{id: in.objSeq, elemT: types.Typ[types.Uint8], lenOnly: true, phys: 1 << 20}
		return TupleV{SliceV{o, ts.Const(64, 0), ln, ln}, IfaceV{}}, true
	case "(*github.com/pion/srtp/v3.Context).SetROC":
		cp := args[0].(Pointer)
		if in.rocTab == nil {
			in.rocTab = map[*Value][][2]*Term{}
		}
		in.rocTab[cp.P] = append(in.rocTab[cp.P], [2]*Term{args[1].(*Term), args[2].(*Term)})
		return nil, true
	case "(*github.com/pion/srtp/v3.Context).ROC":
		cp := args[0].(Pointer)
		ssrc := args[1].(*Term)
		var val *Term = ts.Const(32, 0)
		found := ts.Bool(false)
		for _, e := range in.rocTab[cp.P] {
			eq := ts.Eq(e[0], ssrc)
			val = ts.Ite(eq, e[1], val) // later entries override earlier ones
			found = ts.Or(found, eq)
		}
		return TupleV{val, found}, true
	case "time.Sleep":
		return nil, true
	case "time.NewTimer", "time.NewTicker", "time.AfterFunc":
		// timers never fire in the sequential model (recorded)
		in.stub(full + " (timer object that never fires)")
		rt := fn.Signature.Results().At(0).Type()
		slot := new(Value)
		*slot = in.zero(rt.(*types.Pointer).Elem())
		return Pointer{P: slot}, true
	case "(*time.Timer).Stop", "(*time.Ticker).Stop", "(*time.Timer).Reset":
		if full == "(*time.Ticker).Stop" {
			return nil, true
		}
		return ts.Bool(false), true
	case "(time.Time).Add":
		// contract-level model: the result is the wall-clock instant (sec', nsec')
		// with sec'*1e9+nsec' = sec*1e9+nsec+d and 0 <= nsec' < 1e9 (no saturation:
		// |d| < 2^62 assumed).
		t := args[0].(*StructV)
		d := args[1].(*Term)
		tw, te := t.F[0].(*Term), t.F[1].(*Term)
		if tw.IsConst() && te.IsConst() && d.IsConst() {
			return nil, false
		}
		if d.IsConst() && d.Val == 0 {
			// t.Add(0) == t (wall-clock instants without monotonic reading)
			return in.copyVal(t), true
		}
		top := ts.Const(64, 1<<63)
		in.must(ts.Eq(ts.BvAnd(tw, top), ts.Const(64, 0)), "time model: instant with monotonic reading (unsupported)")
		in.stub("time.Time.Add on symbolic wall-clock instants: defining linear constraint, |d| < 2^62 assumed")
		lim := ts.Const(64, 1<<62)
		in.assume(ts.And(ts.Slt(d, lim), ts.Slt(ts.BvNeg(lim), d)), "time.Add range")
		nsec := in.freshVar("add.nsec", BV(64))
		sec := in.freshVar("add.sec", BV(64))
		e9 := ts.Const(64, 1000000000)
		in.assumeX(ts.Ult(nsec, e9), "time.Add nsec range")
		in.vrange[nsec.id] = [2]uint64{0, 999999999}
		nmask := ts.Const(64, (1<<30)-1)
		tn := ts.BvAnd(tw, nmask)
		if _, hi := in.ival(tw); hi <= nmask.Val {
			tn = tw
		}
		// (sec'-sec)*1e9 + nsec' == nsec + d ; seconds stay within +-2^33 of the operand
		ds := ts.Sub(sec, te)
		l33 := ts.Const(64, 1<<33)
		in.assumeX(ts.And(ts.Slt(ds, l33), ts.Slt(ts.BvNeg(l33), ds)), "time.Add sec range")
		in.assumeX(ts.Eq(ts.Add(ts.Mul(ds, e9), nsec), ts.Add(tn, d)), "time.Add definition")
		res := in.copyVal(t).(*StructV)
		res.F[0] = nsec
		res.F[1] = sec
		return res, true
	case "(time.Time).Sub":
		return in.timeSub(args[0].(*StructV), args[1].(*StructV))
	case "time.Since":
		// time.Now().Sub(t) on the symbolic clock
		in.stub("time.Since = time.Now().Sub(t) on the symbolic clock")
		now := in.symbolicNowT(fn.Signature.Params().At(0).Type())
		r, ok := in.timeSub(now, args[0].(*StructV))
		if !ok {
			in.unsupported("time.Since on a concrete instant")
		}
		return r, true
	case "github.com/bluenviron/gortsplib/v5/pkg/ntp.Encode":
		if _, ok := in.eng.cfg.Params["NTPSTUB"]; !ok {
			return nil, false
		}
		// harness option NTPSTUB: the NTP fixed-point conversion is replaced by its
		// contract (Decode(Encode(t)) == t; established separately by C15's
		// ZzC15NTPRoundTrip to within 1 ns), so that no floating point is involved
		in.stub("ntp.Encode/Decode replaced by the inverse-pair contract (NTPSTUB)")
		v := in.freshVar("ntp", BV(64))
		if in.ntpTab == nil {
			in.ntpTab = map[int]*StructV{}
		}
		in.ntpTab[v.id] = in.copyVal(args[0]).(*StructV)
		if in.ntpVars == nil {
			in.ntpVars = map[int]*Term{}
		}
		in.ntpVars[v.id] = v
		return v, true
	case "github.com/bluenviron/gortsplib/v5/pkg/ntp.Decode":
		if _, ok := in.eng.cfg.Params["NTPSTUB"]; !ok {
			return nil, false
		}
		in.stub("ntp.Encode/Decode replaced by the inverse-pair contract (NTPSTUB)")
		// an arbitrary instant r, tied to every Encode on this path: arg == Encode(t) => r == t
		// (the value usually comes back re-assembled from marshalled bytes, so the link is
		// stated in the logic rather than by term identity)
		if t, ok := args[0].(*Term); ok {
			if st, ok := in.ntpTab[t.id]; ok {
				return in.copyVal(st), true
			}
		}
		r := in.symbolicInstant(fn.Signature.Results().At(0).Type())
		if t, ok := args[0].(*Term); ok {
			for id, st := range in.ntpTab {
				v := in.ntpVars[id]
				same := ts.And(ts.Eq(r.F[0].(*Term), st.F[0].(*Term)), ts.Eq(r.F[1].(*Term), st.F[1].(*Term)))
				in.assumeX(ts.Implies(ts.Eq(t, v), same), "ntp.Decode(ntp.Encode(t)) == t")
			}
		}
		return r, true
	case "os.Getenv":
		return StrV{}, true
	case "crypto/rand.Read":
		in.stub("crypto/rand.Read (arbitrary bytes)")
		s := args[0].(SliceV)
		if s.O != nil && !s.O.lenOnly {
			off := in.concretize(s.Off, "rand off")
			n := in.concretize(s.Len, "rand len")
			for k := uint64(0); k < n; k++ {
				s.O.E[off+k] = in.freshVar("rand", BV(8))
			}
		}
		return TupleV{s.Len, IfaceV{}}, true
	case "math/rand.Uint32", "math/rand/v2.Uint32":
		in.stub("math/rand (arbitrary)")
		return in.freshVar("mrand", BV(32)), true
	case "math/rand.Intn", "math/rand/v2.IntN":
		in.stub("math/rand (arbitrary)")
		v := in.freshVar("mrandn", BV(64))
		in.assume(ts.Ult(v, args[0].(*Term)), "rand.Intn range")
		return v, true
	}
	// generic families
	switch {
	case strings.HasPrefix(full, "(*sync/atomic."):
		// typed atomics have Go bodies that call the functions above
		return nil, false
	case strings.HasPrefix(full, "runtime.") && len(fn.Blocks) == 0:
		in.unsupported("runtime function " + full)
	}
	if in.eng.cfg.Verbose && len(fn.Blocks) == 0 {
		fmt.Println("NOBODY:", full)
	}
	return nil, false
}

func (in *Interp) seqStr(v Value) StrV {
	switch x := v.(type) {
	case StrV:
		return x
	case SliceV:
		if x.O == nil {
			return StrV{}
		}
		return StrV{O: x.O, Off: x.Off, Len: x.Len}
	}
	in.unsupported("seqStr")
	return StrV{}
}

func (in *Interp) indexByte(s seqView, c *Term) *Term {
	ts := in.ts
	neg := ts.Const(64, ^uint64(0))
	if s.O == nil {
		return neg
	}
	if s.O.lenOnly {
		r := in.freshVar("idxlo", BV(64))
		in.assume(ts.Or(ts.Eq(r, neg), ts.Ult(r, s.Len)), "IndexByte result range")
		return r
	}
	_, hi := in.ival(s.Len)
	if hi > uint64(s.O.phys) {
		hi = uint64(s.O.phys)
	}
	res := neg
	for k := int(hi) - 1; k >= 0; k-- {
		kc := ts.Const(64, uint64(k))
		hit := ts.And(ts.Ult(kc, s.Len), ts.Eq(in.viewAt(s, kc), c))
		res = ts.Ite(hit, kc, res)
	}
	return res
}

func (in *Interp) lastIndexByte(s seqView, c *Term) *Term {
	ts := in.ts
	neg := ts.Const(64, ^uint64(0))
	if s.O == nil {
		return neg
	}
	_, hi := in.ival(s.Len)
	if hi > uint64(s.O.phys) {
		hi = uint64(s.O.phys)
	}
	res := neg
	for k := 0; k < int(hi); k++ {
		kc := ts.Const(64, uint64(k))
		hit := ts.And(ts.Ult(kc, s.Len), ts.Eq(in.viewAt(s, kc), c))
		res = ts.Ite(hit, kc, res)
	}
	return res
}

func (in *Interp) countByte(s seqView, c *Term) *Term {
	ts := in.ts
	if s.O == nil {
		return ts.Const(64, 0)
	}
	_, hi := in.ival(s.Len)
	if hi > uint64(s.O.phys) {
		hi = uint64(s.O.phys)
	}
	res := ts.Const(64, 0)
	for k := 0; k < int(hi); k++ {
		kc := ts.Const(64, uint64(k))
		hit := ts.And(ts.Ult(kc, s.Len), ts.Eq(in.viewAt(s, kc), c))
		res = ts.Add(res, ts.Ite(hit, ts.Const(64, 1), ts.Const(64, 0)))
	}
	return res
}

// first index of sep in s, or -1
func (in *Interp) indexSeq(s, sep seqView) *Term {
	ts := in.ts
	neg := ts.Const(64, ^uint64(0))
	if !sep.Len.IsConst() {
		in.unsupported("Index with symbolic-length separator")
	}
	m := sep.Len.Val
	if m == 0 {
		return ts.Const(64, 0)
	}
	if s.O == nil {
		return neg
	}
	if s.O.lenOnly || (sep.O != nil && sep.O.lenOnly) {
		// contents unknown: any position (or none) is possible
		r := in.freshVar("idxlo", BV(64))
		in.assumeX(ts.Or(ts.Eq(r, neg), ts.And(ts.Ule(ts.Const(64, m), s.Len), ts.Ule(r, ts.Sub(s.Len, ts.Const(64, m))))), "Index result range")
		return r
	}
	_, hi := in.ival(s.Len)
	if hi > uint64(s.O.phys) {
		hi = uint64(s.O.phys)
	}
	res := neg
	for k := int(hi) - int(m); k >= 0; k-- {
		conds := []*Term{ts.Ule(ts.Const(64, uint64(k)+m), s.Len)}
		for j := uint64(0); j < m; j++ {
			conds = append(conds, ts.Eq(in.viewAt(s, ts.Const(64, uint64(k)+j)), in.viewAt(sep, ts.Const(64, j))))
		}
		res = ts.Ite(ts.AndN(conds...), ts.Const(64, uint64(k)), res)
	}
	return res
}

func (in *Interp) errType() types.Type {
	// *errors.errorString
	for _, p := range in.eng.prog.AllPackages() {
		if p.Pkg.Path() == "errors" {
			if tn := p.Pkg.Scope().Lookup("errorString"); tn != nil {
				return types.NewPointer(tn.Type())
			}
		}
	}
	in.unsupported("errors package not loaded")
	return nil
}

func (in *Interp) opaqueError(args []Value) Value {
	// keep a wrapped error (for errors.Is) if one of the variadic args is an error
	var wrapped Value = IfaceV{}
	msg := "<fmt.Errorf>"
	if s, ok := args[0].(StrV); ok {
		if c, ok := in.strConcrete(s); ok {
			msg = c
		}
	}
	if len(args) > 1 {
		if sl, ok := args[1].(SliceV); ok && sl.O != nil && sl.Len.IsConst() && sl.Off.IsConst() {
			for k := uint64(0); k < sl.Len.Val; k++ {
				if iv, ok := sl.O.E[sl.Off.Val+k].(IfaceV); ok && iv.T != nil {
					if types.Implements(iv.T, errorIface()) {
						wrapped = iv
					}
				}
			}
		}
	}
	et := in.errType()
	sv := &StructV{F: []Value{StrV{C: msg}}}
	slot := new(Value)
	*slot = sv
	ev := IfaceV{T: et, V: Pointer{P: slot}}
	if w, ok := wrapped.(IfaceV); ok && w.T != nil {
		in.wrapOf(slot, w)
	}
	return ev
}

func (in *Interp) wrapOf(slot *Value, w IfaceV) {
	if in.wraps == nil {
		in.wraps = map[*Value]IfaceV{}
	}
	in.wraps[slot] = w
}

func errorIface() *types.Interface {
	return types.Universe.Lookup("error").Type().Underlying().(*types.Interface)
}

func (in *Interp) errorsIs(err, target IfaceV) *Term {
	ts := in.ts
	for depth := 0; depth < 8; depth++ {
		if err.T == nil {
			return ts.Bool(target.T == nil)
		}
		eq := in.valEq(err, target)
		if eq.IsTrue() {
			return eq
		}
		if p, ok := err.V.(Pointer); ok && p.P != nil && in.wraps != nil {
			if w, ok := in.wraps[p.P]; ok {
				err = w
				continue
			}
		}
		// Unwrap method?
		if m := in.eng.prog.LookupMethod(err.T, nil, "Unwrap"); m != nil && len(m.Blocks) > 0 {
			r := in.call(m, []Value{err.V}, nil)
			if iv, ok := r.(IfaceV); ok {
				err = iv
				continue
			}
		}
		return eq
	}
	return ts.Bool(false)
}

// errors.As for a target of type *T with T a concrete (non-interface) type:
// walks the unwrap chain and stores the first error whose dynamic type is T.
func (in *Interp) errorsAs(err, target IfaceV) *Term {
	ts := in.ts
	pt, ok := target.T.(*types.Pointer)
	if !ok {
		in.unsupported("errors.As with a non-pointer target")
	}
	if _, isIface := under(pt.Elem()).(*types.Interface); isIface {
		in.unsupported("errors.As with an interface target")
	}
	tp, _ := target.V.(Pointer)
	for depth := 0; depth < 8; depth++ {
		if err.T == nil {
			return ts.Bool(false)
		}
		if types.Identical(err.T, pt.Elem()) {
			in.store(tp, in.copyVal(err.V))
			return ts.Bool(true)
		}
		if p, ok := err.V.(Pointer); ok && p.P != nil && in.wraps != nil {
			if w, ok := in.wraps[p.P]; ok {
				err = w
				continue
			}
		}
		if types.NewMethodSet(err.T).Lookup(nil, "Unwrap") != nil {
			if m := in.eng.prog.LookupMethod(err.T, nil, "Unwrap"); m != nil && len(m.Blocks) > 0 {
				r := in.call(m, []Value{err.V}, nil)
				if iv, ok := r.(IfaceV); ok {
					err = iv
					continue
				}
			}
		}
		return ts.Bool(false)
	}
	return ts.Bool(false)
}

func (in *Interp) sprintf(full string, args []Value) (Value, bool) {
	if full != "fmt.Sprintf" {
		return nil, false
	}
	f, ok := in.strConcrete(args[0].(StrV))
	if !ok {
		return nil, false
	}
	sl := args[1].(SliceV)
	var vals []Value
	if sl.O != nil {
		if !sl.Len.IsConst() || !sl.Off.IsConst() {
			return nil, false
		}
		for k := uint64(0); k < sl.Len.Val; k++ {
			vals = append(vals, sl.O.E[sl.Off.Val+k])
		}
	}
	// only %s %d %v with concrete args, or %s with symbolic strings
	var out Value = StrV{C: ""}
	ai := 0
	lit := ""
	flush := func() {
		if lit != "" {
			out = in.strConcat(out.(StrV), StrV{C: lit})
			lit = ""
		}
	}
	for i := 0; i < len(f); i++ {
		if f[i] != '%' {
			lit += string(f[i])
			continue
		}
		i++
		if i >= len(f) {
			return nil, false
		}
		if f[i] == '%' {
			lit += "%"
			continue
		}
		if ai >= len(vals) {
			return nil, false
		}
		iv, ok := vals[ai].(IfaceV)
		ai++
		if !ok {
			return nil, false
		}
		switch f[i] {
		case 's', 'v', 'd':
			switch x := iv.V.(type) {
			case StrV:
				flush()
				out = in.strConcat(out.(StrV), x)
			case *Term:
				if !x.IsConst() || x.Sort.K != SBV {
					return nil, false
				}
				_, signed, _ := basicInfo(iv.T)
				if signed {
					lit += fmt.Sprint(sext64(x.Val, x.Sort.W))
				} else {
					lit += fmt.Sprint(x.Val)
				}
			default:
				return nil, false
			}
		default:
			return nil, false
		}
	}
	flush()
	return out, true
}

// time.Now: returns a time.Time struct with symbolic wall/ext consistent with
// "wall clock without monotonic reading": wall = nsec (30 bits), ext = seconds since year 1.
func (in *Interp) symbolicNowT(timeT types.Type) *StructV {
	ts := in.ts
	res := in.zero(timeT).(*StructV)
	if in.inInit > 0 {
		return res
	}
	// fields: wall uint64, ext int64, loc *Location
	in.nowSeq++
	nsec := in.ts.Var(fmt.Sprintf("now%d.nsec", in.nowSeq), BV(64))
	sec := in.ts.Var(fmt.Sprintf("now%d.sec", in.nowSeq), BV(64))
	in.assume(ts.Ult(nsec, ts.Const(64, 1000000000)), "time.Now nsec range")
	// seconds since year 1: between 1970 and 2100
	const unixToInternal = 62135596800
	lo := ts.Const(64, unixToInternal)
	hi := ts.Const(64, unixToInternal+4102444800)
	in.assume(ts.And(ts.Ule(lo, sec), ts.Ule(sec, hi)), "time.Now sec range 1970..2100")
	if in.lastNowSec != nil {
		// non-decreasing
		later := ts.Or(ts.Ult(in.lastNowSec, sec), ts.And(ts.Eq(in.lastNowSec, sec), ts.Ule(in.lastNowNsec, nsec)))
		in.assume(later, "time.Now non-decreasing")
		if d, ok := in.eng.cfg.Params["NOWDRIFT"]; ok {
			// harness option: consecutive readings of the clock are at most d seconds apart
			// (stated against every earlier reading, so that each difference of two readings
			// has a learned interval)
			for j, prev := range in.nowSecs {
				gap := uint64(d) * uint64(len(in.nowSecs)-j)
				in.assume(ts.Ule(ts.Sub(sec, prev), ts.Const(64, gap)), "time.Now drift bound")
			}
		}
	}
	in.nowSecs = append(in.nowSecs, sec)
	in.lastNowSec, in.lastNowNsec = sec, nsec
	res.F[0] = nsec
	res.F[1] = sec
	in.nondets = append(in.nondets, nondetRec{Name: "time.Now.sec", Kind: "u64", Terms: []*Term{sec}})
	in.nondets = append(in.nondets, nondetRec{Name: "time.Now.nsec", Kind: "u64", Terms: []*Term{nsec}})
	return res
}

// an arbitrary wall-clock instant between 1970 and 2100 (not tied to the clock)
func (in *Interp) symbolicInstant(timeT types.Type) *StructV {
	ts := in.ts
	res := in.zero(timeT).(*StructV)
	in.nowSeq++
	nsec := ts.Var(fmt.Sprintf("inst%d.nsec", in.nowSeq), BV(64))
	sec := ts.Var(fmt.Sprintf("inst%d.sec", in.nowSeq), BV(64))
	in.assume(ts.Ult(nsec, ts.Const(64, 1000000000)), "instant nsec range")
	const unixToInternal = 62135596800
	in.assume(ts.And(ts.Ule(ts.Const(64, unixToInternal), sec), ts.Ule(sec, ts.Const(64, unixToInternal+4102444800))), "instant sec range 1970..2100")
	res.F[0] = nsec
	res.F[1] = sec
	return res
}

// contract-level model of time.Time.Sub for wall-clock instants (no monotonic
// reading): (sec1-sec2)*1e9 + (nsec1-nsec2), valid while the difference fits
// (|sec1-sec2| < 2^33, i.e. 272 years) — stated as an assumption.
func (in *Interp) timeSub(t, u *StructV) (Value, bool) {
	ts := in.ts
	tw, uw := t.F[0].(*Term), u.F[0].(*Term)
	te, ue := t.F[1].(*Term), u.F[1].(*Term)
	if tw.IsConst() && uw.IsConst() && te.IsConst() && ue.IsConst() {
		return nil, false
	}
	top := ts.Const(64, 1<<63)
	in.must(ts.Eq(ts.BvAnd(tw, top), ts.Const(64, 0)), "time model: instant with monotonic reading (unsupported)")
	in.must(ts.Eq(ts.BvAnd(uw, top), ts.Const(64, 0)), "time model: instant with monotonic reading (unsupported)")
	in.stub("time.Time.Sub on symbolic wall-clock instants: (sec1-sec2)*1e9+(nsec1-nsec2), |sec1-sec2| < 2^33 assumed")
	ds := ts.Sub(te, ue)
	lim := ts.Const(64, 1<<33)
	in.assume(ts.And(ts.Slt(ds, lim), ts.Slt(ts.BvNeg(lim), ds)), "time.Sub range")
	nmask := ts.Const(64, (1<<30)-1)
	tn, un := ts.BvAnd(tw, nmask), ts.BvAnd(uw, nmask)
	if _, hi := in.ival(tw); hi <= nmask.Val {
		tn = tw
	}
	if _, hi := in.ival(uw); hi <= nmask.Val {
		un = uw
	}
	dn := ts.Sub(tn, un)
	return ts.Add(in.mulConst(ds, 1000000000), dn), true
}

// mulConst: x*c; when x is known to lie in a small interval the product is an
// ite-chain over its values (a 64-bit multiplication by 10^9 defeats the
// bit-blasting solvers, see DESIGN.md)
func (in *Interp) mulConst(x *Term, c uint64) *Term {
	ts := in.ts
	lo, hi := in.ival(x)
	if hi >= lo && hi-lo <= 256 {
		res := ts.Const(64, hi*c)
		for v := hi; v > lo; v-- {
			res = ts.Ite(ts.Eq(x, ts.Const(64, v-1)), ts.Const(64, (v-1)*c), res)
		}
		return res
	}
	return ts.Mul(x, ts.Const(64, c))
}

// monitorCond: the condition asserted by the write monitors. No write seen:
// true. Writes seen: "no write changed a value" (so that the solver's
// counterexample is one in which the alteration is visible to a native copy
// compare); writes whose visibility cannot be expressed count as visible.
func (in *Interp) monitorCond(clean bool) *Term {
	ts := in.ts
	if clean {
		return ts.Bool(true)
	}
	if len(in.monDiffs) == 0 {
		return ts.Bool(false)
	}
	any := ts.Bool(false)
	for _, d := range in.monDiffs {
		any = ts.Or(any, d)
	}
	return ts.Not(any)
}

func (in *Interp) retained(v Value, seen map[interface{}]bool, depth int) *Term {
	ts := in.ts
	zero := ts.Const(64, 0)
	if depth > 12 {
		return zero
	}
	switch x := v.(type) {
	case Pointer:
		if x.P == nil || seen[x.P] {
			return zero
		}
		seen[x.P] = true
		return in.retained(*x.P, seen, depth+1)
	case *StructV:
		if x == nil {
			return zero
		}
		sum := zero
		for _, f := range x.F {
			sum = ts.Add(sum, in.retained(f, seen, depth+1))
		}
		return sum
	case IfaceV:
		if x.T == nil {
			return zero
		}
		return in.retained(x.V, seen, depth+1)
	case SliceV:
		if x.O == nil {
			return zero
		}
		if isScalarType(x.O.elemT) {
			return x.Len
		}
		if !x.Len.IsConst() || !x.Off.IsConst() {
			in.unsupported("zzRetained: slice of non-scalars with symbolic length")
		}
		sum := zero
		for k := x.Off.Val; k < x.Off.Val+x.Len.Val && k < uint64(len(x.O.E)); k++ {
			sum = ts.Add(sum, in.retained(x.O.E[k], seen, depth+1))
		}
		return sum
	case StrV:
		if x.O == nil {
			return ts.Const(64, uint64(len(x.C)))
		}
		return x.Len
	case *MapV:
		if x == nil || seen[x] {
			return zero
		}
		seen[x] = true
		sum := zero
		for _, e := range x.E {
			part := ts.Add(in.retained(e.K, seen, depth+1), in.retained(e.V, seen, depth+1))
			// fixed per-entry cost so that entries with small keys still count
			part = ts.Add(part, ts.Const(64, 16))
			if e.Present != nil {
				part = ts.Ite(e.Present, part, zero)
			}
			sum = ts.Add(sum, part)
		}
		return sum
	}
	return zero
}

// ---------- prelude (harness) intrinsics ----------

func (in *Interp) prelude(fn *ssa.Function, name string, args []Value) (Value, bool) {
	ts := in.ts
	e := in.eng
	switch name {
	case "zzU8":
		return in.nondetScalar(in.cstr(args[0]), "u8", 8), true
	case "zzU16":
		return in.nondetScalar(in.cstr(args[0]), "u16", 16), true
	case "zzU32":
		return in.nondetScalar(in.cstr(args[0]), "u32", 32), true
	case "zzU64":
		return in.nondetScalar(in.cstr(args[0]), "u64", 64), true
	case "zzInt", "zzI64":
		return in.nondetScalar(in.cstr(args[0]), "int", 64), true
	case "zzI32":
		return in.nondetScalar(in.cstr(args[0]), "i32", 32), true
	case "zzBool":
		return in.nondetScalar(in.cstr(args[0]), "bool", 1), true
	case "zzIntIn":
		lo, hi := in.cint(args[1]), in.cint(args[2])
		if lo == hi {
			// still consumes a replay slot
			in.nondets = append(in.nondets, nondetRec{Name: in.cstr(args[0]), Kind: "int", Terms: []*Term{ts.Const(64, uint64(lo))}})
			return ts.Const(64, uint64(lo)), true
		}
		t := in.nondetScalar(in.cstr(args[0]), "int", 64)
		in.assumeX(ts.And(ts.Sle(ts.Const(64, uint64(lo)), t), ts.Sle(t, ts.Const(64, uint64(hi)))), "zzIntIn "+in.cstr(args[0]))
		if lo >= 0 {
			in.vrange[t.id] = [2]uint64{uint64(lo), uint64(hi)}
		}
		return t, true
	case "zzBytes", "zzBytesLO":
		min, max := in.cint(args[1]), in.cint(args[2])
		o, ln := in.nondetBytes(in.cstr(args[0]), min, max, name == "zzBytesLO", 0)
		o.input = true
		return SliceV{o, ts.Const(64, 0), ln, ln}, true
	case "zzString":
		min, max := in.cint(args[1]), in.cint(args[2])
		o, ln := in.nondetBytes(in.cstr(args[0]), min, max, false, 0)
		o.frozen = true
		return StrV{O: o, Off: ts.Const(64, 0), Len: ln}, true
	case "zzAssume":
		c := args[0].(*Term)
		e.mu.Lock()
		e.assumes[in.posStr()]++
		e.mu.Unlock()
		in.assume(c, "zzAssume@"+in.posStr())
		return nil, true
	case "zzAssert":
		in.assertTerm(args[0].(*Term), in.cstr(args[1]), false)
		return nil, true
	case "zzAssertMustFail":
		in.assertTerm(args[0].(*Term), in.cstr(args[1]), true)
		return nil, true
	case "zzCover":
		in.cover(in.cstr(args[0]), args[1].(*Term))
		return nil, true
	case "zzParam":
		n := in.cstr(args[0])
		if v, ok := e.cfg.Params[n]; ok {
			return ts.Const(64, uint64(v)), true
		}
		return args[1], true
	case "zzBytesEq":
		return in.seqEq(in.viewOf(args[0]), in.viewOf(args[1])), true
	case "zzInputsUnmodified":
		bad := ""
		for _, ev := range in.events {
			if strings.HasPrefix(ev, "write to input buffer") {
				bad = ev
				break
			}
		}
		if bad != "" {
			in.note(bad)
		}
		in.assertTerm(in.monitorCond(bad == ""), "inputs-unmodified", false)
		return nil, true
	case "zzOwn":
		s := args[0].(SliceV)
		if s.O != nil {
			s.O.owned = in.cstr(args[1])
		}
		return nil, true
	case "zzOwnedUnmodified":
		bad := ""
		for _, ev := range in.events {
			if strings.HasPrefix(ev, "write to returned buffer") {
				bad = ev
				break
			}
		}
		if bad != "" {
			in.note(bad)
		}
		in.assertTerm(in.monitorCond(bad == ""), "returned-frames-unmodified", false)
		return nil, true
	case "zzConcretize":
		v := in.concretize(args[0].(*Term), "zzConcretize")
		return ts.Const(64, v), true
	case "zzIsSymbolic":
		return ts.Bool(true), true
	case "zzLockHeld":
		a0 := args[0]
		if iv, ok := a0.(IfaceV); ok {
			a0 = iv.V
		}
		p := a0.(Pointer)
		return ts.Bool(in.lockHeld[p.P]), true
	case "zzRetained":
		// sum of the lengths of all byte slices / strings reachable from the argument
		// (slices of other elements are followed; maps count keys and values)
		return in.retained(args[0], map[interface{}]bool{}, 0), true
	case "zzChanClosed":
		ch, _ := args[0].(*ChanV)
		return ts.Bool(ch != nil && ch.closed), true
	case "zzEventCountIs":
		want := in.cstr(args[0])
		n := 0
		for _, ev := range in.events {
			if ev == want {
				n++
			}
		}
		return ts.Bool(int64(n) == in.cint(args[1])), true
	case "zzWakes":
		// engine: run op and report whether it issued a Broadcast/Signal (the
		// waiter is not executed); natively a real consumer goroutine is used
		cnt := func() int {
			n := 0
			for _, ev := range in.events {
				if ev == "cond-broadcast" {
					n++
				}
			}
			return n
		}
		before := cnt()
		op := args[1].(*Closure)
		in.call(op.Fn, nil, op.Env)
		return ts.Bool(cnt() > before), true
	case "zzIte":
		return ts.Ite(args[0].(*Term), args[1].(*Term), args[2].(*Term)), true
	case "zzImplies":
		return ts.Implies(args[0].(*Term), args[1].(*Term)), true
	case "zzAnd":
		return ts.And(args[0].(*Term), args[1].(*Term)), true
	case "zzOr":
		return ts.Or(args[0].(*Term), args[1].(*Term)), true
	case "zzSAt":
		sv := in.viewOf(args[0])
		i := args[1].(*Term)
		if sv.O == nil {
			return ts.Const(8, 0), true
		}
		return in.viewAt(sv, i), true
	case "zzAt":
		s := args[0].(SliceV)
		i := args[1].(*Term)
		if s.O == nil {
			return ts.Const(8, 0), true
		}
		idx := ts.Add(s.Off, i)
		if idx.IsConst() && idx.Val >= uint64(s.O.phys) {
			return ts.Const(8, 0), true
		}
		return in.readCell(s.O, idx), true
	case "zzNote":
		in.note(in.cstr(args[0]))
		return nil, true
	case "zzIsFloorDiv":
		// q = floor(v*m/d)  <=>  0 <= q  and  q*d <= v*m < q*d + d   (128-bit arithmetic)
		q, v, m, d := args[0].(*Term), args[1].(*Term), args[2].(*Term), args[3].(*Term)
		z := func(t *Term) *Term {
			return ts.mk(&Term{Op: OZext, Sort: BV(128), Args: []*Term{t}, P0: 64})
		}
		vm := ts.mk(&Term{Op: OMul, Sort: BV(128), Args: []*Term{z(v), z(m)}})
		qd := ts.mk(&Term{Op: OMul, Sort: BV(128), Args: []*Term{z(q), z(d)}})
		le := ts.mk(&Term{Op: OUle, Sort: BoolSort, Args: []*Term{qd, vm}})
		diff := ts.mk(&Term{Op: OSub, Sort: BV(128), Args: []*Term{vm, qd}})
		lt := ts.mk(&Term{Op: OUlt, Sort: BoolSort, Args: []*Term{diff, z(d)}})
		return ts.AndN(ts.Sle(ts.Const(64, 0), q), le, lt), true
	}
	return nil, false
}
