package main

import (
	"fmt"
	"go/constant"
	"go/token"
	"go/types"
	"math"
	"math/big"
	"strings"

	"golang.org/x/tools/go/ssa"
)

// ---------- types ----------

func under(t types.Type) types.Type { return types.Unalias(t).Underlying() }

func basicInfo(t types.Type) (w int, signed bool, kind string) {
	b, ok := under(t).(*types.Basic)
	if !ok {
		return 0, false, ""
	}
	switch b.Kind() {
	case types.Bool, types.UntypedBool:
		return 1, false, "bool"
	case types.Int8:
		return 8, true, "int"
	case types.Int16:
		return 16, true, "int"
	case types.Int32, types.UntypedRune:
		return 32, true, "int"
	case types.Int64, types.Int, types.UntypedInt:
		return 64, true, "int"
	case types.Uint8:
		return 8, false, "int"
	case types.Uint16:
		return 16, false, "int"
	case types.Uint32:
		return 32, false, "int"
	case types.Uint64, types.Uint, types.Uintptr:
		return 64, false, "int"
	case types.Float32:
		return 32, true, "float"
	case types.Float64, types.UntypedFloat:
		return 64, true, "float"
	case types.String, types.UntypedString:
		return 0, false, "string"
	case types.UnsafePointer:
		return 0, false, "ptr"
	case types.UntypedNil:
		return 0, false, "nil"
	}
	return 0, false, "other"
}

func (in *Interp) zero(t types.Type) Value {
	ts := in.ts
	switch u := under(t).(type) {
	case *types.Basic:
		w, _, k := basicInfo(u)
		switch k {
		case "bool":
			return ts.Bool(false)
		case "int":
			return ts.Const(w, 0)
		case "float":
			return ts.FPConst(w, 0)
		case "string":
			return StrV{}
		case "ptr":
			return Pointer{}
		case "nil":
			return Pointer{}
		}
		in.unsupported("zero of basic " + u.String())
	case *types.Pointer:
		return Pointer{}
	case *types.Slice:
		z := ts.Const(64, 0)
		return SliceV{nil, z, z, z}
	case *types.Map:
		return (*MapV)(nil)
	case *types.Chan:
		return (*ChanV)(nil)
	case *types.Signature:
		return (*Closure)(nil)
	case *types.Interface:
		return IfaceV{}
	case *types.Struct:
		s := &StructV{F: make([]Value, u.NumFields())}
		for i := range s.F {
			s.F[i] = in.zero(u.Field(i).Type())
		}
		return s
	case *types.Array:
		n := int(u.Len())
		o := in.newObj(u.Elem(), n)
		if isScalarType(u.Elem()) {
			z := in.zero(u.Elem())
			for i := range o.E {
				o.E[i] = z
			}
		} else {
			for i := range o.E {
				o.E[i] = in.zero(u.Elem())
			}
		}
		return o
	case *types.Tuple:
		tv := make(TupleV, u.Len())
		for i := range tv {
			tv[i] = in.zero(u.At(i).Type())
		}
		return tv
	}
	in.unsupported("zero of " + t.String())
	return nil
}

func isScalarType(t types.Type) bool {
	_, _, k := basicInfo(t)
	return k == "bool" || k == "int" || k == "float"
}

func (in *Interp) newObj(elem types.Type, n int) *Obj {
	in.objSeq++
	return &Obj{E: make([]Value, n), id: in.objSeq, elemT: elem, phys: n}
}

// deep copy of value-semantics aggregates
func (in *Interp) copyVal(v Value) Value {
	switch x := v.(type) {
	case *StructV:
		n := &StructV{F: make([]Value, len(x.F))}
		for i, f := range x.F {
			n.F[i] = in.copyVal(f)
		}
		return n
	case *Obj:
		in.objSeq++
		n := &Obj{E: make([]Value, len(x.E)), id: in.objSeq, elemT: x.elemT, phys: x.phys, lenOnly: x.lenOnly}
		for i, f := range x.E {
			n.E[i] = in.copyVal(f)
		}
		return n
	case TupleV:
		n := make(TupleV, len(x))
		for i, f := range x {
			n[i] = in.copyVal(f)
		}
		return n
	}
	return v
}

// store v into slot (in place for aggregates so that interior pointers stay valid)
func (in *Interp) storeSlot(p *Value, v Value) {
	switch x := v.(type) {
	case *StructV:
		if dst, ok := (*p).(*StructV); ok && dst != nil && len(dst.F) == len(x.F) {
			if dst == x {
				return
			}
			for i := range x.F {
				in.storeSlot(&dst.F[i], x.F[i])
			}
			return
		}
		*p = in.copyVal(x)
	case *Obj:
		if dst, ok := (*p).(*Obj); ok && dst != nil && len(dst.E) == len(x.E) {
			if dst == x {
				return
			}
			for i := range x.E {
				in.storeSlot(&dst.E[i], x.E[i])
			}
			return
		}
		*p = in.copyVal(x)
	default:
		*p = v
	}
}

// ---------- constants ----------

func (in *Interp) constVal(c *ssa.Const) Value {
	t := c.Type()
	if c.Value == nil {
		return in.zero(t)
	}
	w, signed, k := basicInfo(t)
	switch k {
	case "bool":
		return in.ts.Bool(constant.BoolVal(c.Value))
	case "int":
		iv := constant.ToInt(c.Value)
		if iv.Kind() != constant.Int {
			in.unsupported("non-int const for int type")
		}
		if u, ok := constant.Uint64Val(iv); ok {
			return in.ts.Const(w, u)
		}
		if s, ok := constant.Int64Val(iv); ok {
			return in.ts.Const(w, uint64(s))
		}
		_ = signed
		in.unsupported("big int const")
	case "float":
		f, _ := constant.Float64Val(constant.ToFloat(c.Value))
		if w == 32 {
			return in.ts.FPConst(32, uint64(math.Float32bits(float32(f))))
		}
		return in.ts.FPConst(64, math.Float64bits(f))
	case "string":
		if c.Value.Kind() == constant.String {
			return StrV{C: constant.StringVal(c.Value)}
		}
	}
	in.unsupported("const of type " + t.String())
	return nil
}

// ---------- frames / calls ----------

func (in *Interp) regIndex(fn *ssa.Function) map[ssa.Value]int {
	if m, ok := in.regIdx[fn]; ok {
		return m
	}
	m := map[ssa.Value]int{}
	n := 0
	for _, p := range fn.Params {
		m[p] = n
		n++
	}
	for _, p := range fn.FreeVars {
		m[p] = n
		n++
	}
	for _, b := range fn.Blocks {
		for _, ins := range b.Instrs {
			if v, ok := ins.(ssa.Value); ok {
				m[v] = n
				n++
			}
		}
	}
	in.regIdx[fn] = m
	return m
}

func (in *Interp) get(fr *frame, v ssa.Value) Value {
	switch x := v.(type) {
	case *ssa.Const:
		return in.constVal(x)
	case *ssa.Global:
		return Pointer{P: in.globalSlot(x)}
	case *ssa.Function:
		return &Closure{Fn: x}
	case *ssa.Builtin:
		return x
	}
	i, ok := fr.idx[v]
	if !ok {
		panic(fmt.Sprintf("no register for %s in %s", v.Name(), fr.fn))
	}
	r := fr.regs[i]
	if r == nil {
		panic(fmt.Sprintf("unset register %s (%T) in %s", v.Name(), v, fr.fn))
	}
	return r
}

func (in *Interp) globalSlot(g *ssa.Global) *Value {
	if s, ok := in.globals[g]; ok {
		return s
	}
	// allocate all globals of the package, then run its init
	in.ensureInit(g.Pkg)
	if s, ok := in.globals[g]; ok {
		return s
	}
	s := new(Value)
	*s = in.zero(g.Type().(*types.Pointer).Elem())
	in.globals[g] = s
	return s
}

func (in *Interp) ensureInit(pkg *ssa.Package) {
	if pkg == nil || in.initDone[pkg] {
		return
	}
	in.initDone[pkg] = true
	for _, m := range pkg.Members {
		if g, ok := m.(*ssa.Global); ok {
			if _, ok := in.globals[g]; !ok {
				s := new(Value)
				func() {
					defer func() {
						if r := recover(); r != nil {
							*s = nil
						}
					}()
					*s = in.zero(g.Type().(*types.Pointer).Elem())
				}()
				in.globals[g] = s
			}
		}
	}
	initFn := pkg.Func("init")
	if initFn == nil || len(initFn.Blocks) == 0 {
		return
	}
	pp := pkg.Pkg.Path()
	internalOK := pp == "internal/strconv" || pp == "internal/byteorder" || pp == "internal/itoa" || pp == "internal/stringslite"
	if strings.HasPrefix(pp, "internal/") && !internalOK {
		return
	}
	for _, pre := range []string{"runtime", "reflect", "os", "syscall", "crypto/", "net/", "sync", "log", "encoding/json",
		"testing", "golang.org/x/sys", "vendor/", "unsafe", "context", "io/fs", "path", "hash", "compress", "mime", "html", "text/", "go/"} {
		if pp == "net/url" {
			break
		}
		if pp == pre || strings.HasPrefix(pp, pre) && (strings.HasSuffix(pre, "/") || len(pp) == len(pre) || pp[len(pre)] == '/') {
			return
		}
	}
	in.initBudget = in.steps + 3000000
	in.inInit++
	saveStack := in.stack
	in.stack = nil
	func() {
		defer func() {
			if r := recover(); r != nil {
				if pe, ok := r.(pathEnd); ok {
					in.eng.mu.Lock()
					in.eng.notes["init of "+pkg.Pkg.Path()+" stopped early: "+pe.String()]++
					in.eng.mu.Unlock()
					return
				}
				in.eng.mu.Lock()
				in.eng.notes["init of "+pkg.Pkg.Path()+" engine error: "+fmt.Sprint(r)]++
				in.eng.mu.Unlock()
			}
		}()
		in.call(initFn, nil, nil)
	}()
	in.stack = saveStack
	in.inInit--
	in.initBudget = in.steps + 3000000 // remaining budget of an enclosing initialiser
}

const maxDepth = 400

func (in *Interp) call(fn *ssa.Function, args []Value, env []Value) Value {
	if len(in.stack) > maxDepth {
		in.end("budget", "call depth exceeded in "+fn.String())
	}
	if len(fn.Blocks) == 0 {
		// external / assembly: must have been intercepted
		in.unsupported("no body: " + fn.String())
	}
	idx := in.regIndex(fn)
	fr := &frame{fn: fn, regs: make([]Value, len(idx)), idx: idx, visits: map[int]int{}, env: env}
	if len(args) != len(fn.Params) {
		panic(fmt.Sprintf("arg count mismatch calling %s: %d vs %d", fn, len(args), len(fn.Params)))
	}
	for i, p := range fn.Params {
		fr.regs[idx[p]] = args[i]
	}
	for i, p := range fn.FreeVars {
		fr.regs[idx[p]] = env[i]
	}
	in.stack = append(in.stack, fr)
	defer func() { in.stack = in.stack[:len(in.stack)-1] }()
	if in.inInit == 0 {
		in.pathFuncs[fn.String()] += 0
	}
	return in.run(fr)
}

func (in *Interp) run(fr *frame) Value {
	blk := fr.fn.Blocks[0]
	var prev *ssa.BasicBlock
	cfg := &in.eng.cfg
	for {
		fr.visits[blk.Index]++
		if in.inInit == 0 && fr.visits[blk.Index] > cfg.Unwind {
			in.end("unwind", fmt.Sprintf("loop bound %d exceeded in %s block %d", cfg.Unwind, fr.fn.String(), blk.Index))
		}
		var next *ssa.BasicBlock
		for _, ins := range blk.Instrs {
			in.steps++
			if in.inInit > 0 && in.steps > in.initBudget {
				in.end("budget", "package init budget exceeded")
			}
			if in.inInit == 0 {
				in.pathFuncs[fr.fn.String()]++
				if in.steps > cfg.MaxSteps {
					in.end("budget", "step budget exceeded")
				}
			}
			if p := ins.Pos(); p.IsValid() {
				fr.pos = p
			}
			switch x := ins.(type) {
			case *ssa.Phi:
				// evaluated in a batch on block entry
			case *ssa.Jump:
				next = blk.Succs[0]
			case *ssa.If:
				c := in.get(fr, x.Cond).(*Term)
				if in.branch(c, in.siteKey(fr, blk)) {
					next = blk.Succs[0]
				} else {
					next = blk.Succs[1]
				}
			case *ssa.Return:
				var res Value
				switch len(x.Results) {
				case 0:
				case 1:
					res = in.get(fr, x.Results[0])
				default:
					tv := make(TupleV, len(x.Results))
					for i, r := range x.Results {
						tv[i] = in.get(fr, r)
					}
					res = tv
				}
				return res
			case *ssa.RunDefers:
				in.runDefers(fr)
			case *ssa.Panic:
				v := in.get(fr, x.X)
				in.end("panic", "explicit panic: "+in.describe(v))
			default:
				if in.inInit > 0 && (fr.fn.Synthetic == "package initializer" || strings.HasPrefix(fr.fn.Name(), "init#")) {
					in.execLenient(fr, ins)
				} else {
					in.exec(fr, ins)
				}
			}
		}
		if next == nil {
			panic("block without terminator in " + fr.fn.String())
		}
		// phis need simultaneous evaluation: handled sequentially is fine as
		// ssa phis only reference values from predecessors; to be safe compute
		// them in a batch
		prev = blk
		blk = next
		if len(blk.Instrs) > 0 {
			if _, ok := blk.Instrs[0].(*ssa.Phi); ok {
				in.batchPhis(fr, blk, prev)
			}
		}
	}
}

// execLenient is used while running package initialisers: an instruction the
// engine cannot execute (reflection, runtime hooks, OS access) leaves the
// zero value of its type and initialisation continues, so that the ordinary
// variables of the package still get their values.
func (in *Interp) execLenient(fr *frame, ins ssa.Instruction) {
	defer func() {
		if r := recover(); r != nil {
			if v, ok := ins.(ssa.Value); ok {
				func() {
					defer func() {
						if recover() != nil {
							fr.regs[fr.idx[v]] = Pointer{}
						}
					}()
					fr.regs[fr.idx[v]] = in.zero(v.Type())
				}()
			}
			in.eng.mu.Lock()
			in.eng.notes["init: instruction skipped in "+fr.fn.String()]++
			in.eng.mu.Unlock()
		}
	}()
	in.exec(fr, ins)
}

func (in *Interp) batchPhis(fr *frame, blk, prev *ssa.BasicBlock) {
	edge := -1
	for i, p := range blk.Preds {
		if p == prev {
			edge = i
			break
		}
	}
	var vals []Value
	var phis []*ssa.Phi
	for _, ins := range blk.Instrs {
		ph, ok := ins.(*ssa.Phi)
		if !ok {
			break
		}
		phis = append(phis, ph)
		vals = append(vals, in.get(fr, ph.Edges[edge]))
	}
	for i, ph := range phis {
		fr.regs[fr.idx[ph]] = vals[i]
	}
}

func (in *Interp) siteKey(fr *frame, blk *ssa.BasicBlock) string {
	return fmt.Sprintf("%s#%d", fr.fn.Name(), blk.Index)
}

func (in *Interp) runDefers(fr *frame) {
	for len(fr.defers) > 0 {
		d := fr.defers[len(fr.defers)-1]
		fr.defers = fr.defers[:len(fr.defers)-1]
		d()
	}
}

func (in *Interp) describe(v Value) string {
	switch x := v.(type) {
	case IfaceV:
		if x.T == nil {
			return "nil"
		}
		if s, ok := x.V.(StrV); ok && s.O == nil {
			return s.C
		}
		return x.T.String()
	case StrV:
		if x.O == nil {
			return x.C
		}
		return "<symbolic string>"
	case *Term:
		return x.String()
	}
	return fmt.Sprintf("%T", v)
}

func (in *Interp) set(fr *frame, v ssa.Value, val Value) {
	fr.regs[fr.idx[v]] = val
}

// ---------- instruction execution ----------

func (in *Interp) exec(fr *frame, ins ssa.Instruction) {
	ts := in.ts
	switch x := ins.(type) {
	case *ssa.DebugRef:
	case *ssa.Alloc:
		slot := new(Value)
		*slot = in.zero(x.Type().(*types.Pointer).Elem())
		in.set(fr, x, Pointer{P: slot})
	case *ssa.UnOp:
		in.set(fr, x, in.unop(fr, x))
	case *ssa.BinOp:
		in.set(fr, x, in.binop(x.Op, x.X.Type(), in.get(fr, x.X), in.get(fr, x.Y), x.Y.Type()))
	case *ssa.Store:
		in.store(in.get(fr, x.Addr).(Pointer), in.get(fr, x.Val))
	case *ssa.FieldAddr:
		p := in.get(fr, x.X).(Pointer)
		if p.P == nil {
			if p.O != nil {
				// element of array with symbolic index: concretize
				p = in.concretePtr(p)
			} else {
				in.end("panic", "nil pointer dereference (field addr)")
			}
		}
		sv, ok := (*p.P).(*StructV)
		if !ok || sv == nil {
			in.unsupported(fmt.Sprintf("FieldAddr on %T", *p.P))
		}
		in.set(fr, x, Pointer{P: &sv.F[x.Field]})
	case *ssa.Field:
		sv := in.get(fr, x.X).(*StructV)
		in.set(fr, x, in.copyVal(sv.F[x.Field]))
	case *ssa.IndexAddr:
		in.set(fr, x, in.indexAddr(in.get(fr, x.X), in.get(fr, x.Index).(*Term), x.Index.Type()))
	case *ssa.Index:
		in.set(fr, x, in.index(in.get(fr, x.X), in.get(fr, x.Index).(*Term), x.Index.Type(), x.X.Type()))
	case *ssa.Slice:
		in.set(fr, x, in.sliceOp(fr, x))
	case *ssa.MakeSlice:
		ln := in.to64(in.get(fr, x.Len).(*Term), x.Len.Type())
		cp := in.to64(in.get(fr, x.Cap).(*Term), x.Cap.Type())
		in.set(fr, x, in.makeSlice(under(x.Type()).(*types.Slice).Elem(), ln, cp))
	case *ssa.MakeMap:
		mt := under(x.Type()).(*types.Map)
		in.uidSeq++
		in.set(fr, x, &MapV{KT: mt.Key(), VT: mt.Elem(), id: in.uidSeq})
	case *ssa.MapUpdate:
		m := in.get(fr, x.Map).(*MapV)
		if m == nil {
			in.end("panic", "assignment to entry in nil map")
		}
		in.mapUpdate(m, in.get(fr, x.Key), in.get(fr, x.Value))
	case *ssa.Lookup:
		in.set(fr, x, in.lookup(fr, x))
	case *ssa.Range:
		in.set(fr, x, in.rangeIter(in.get(fr, x.X)))
	case *ssa.Next:
		in.set(fr, x, in.nextIter(in.get(fr, x.Iter), x))
	case *ssa.MakeInterface:
		in.set(fr, x, IfaceV{T: x.X.Type(), V: in.get(fr, x.X)})
	case *ssa.MakeClosure:
		env := make([]Value, len(x.Bindings))
		for i, b := range x.Bindings {
			env[i] = in.get(fr, b)
		}
		in.set(fr, x, &Closure{Fn: x.Fn.(*ssa.Function), Env: env})
	case *ssa.ChangeInterface:
		in.set(fr, x, in.get(fr, x.X))
	case *ssa.ChangeType:
		in.set(fr, x, in.get(fr, x.X))
	case *ssa.Convert:
		in.set(fr, x, in.convert(in.get(fr, x.X), x.X.Type(), x.Type()))
	case *ssa.MultiConvert:
		in.set(fr, x, in.convert(in.get(fr, x.X), x.X.Type(), x.Type()))
	case *ssa.SliceToArrayPointer:
		s := in.get(fr, x.X).(SliceV)
		at := under(x.Type().(*types.Pointer).Elem()).(*types.Array)
		n := at.Len()
		in.must(ts.Ule(ts.Const(64, uint64(n)), s.Len), "slice to array pointer: length too short")
		if s.O == nil {
			in.set(fr, x, Pointer{})
			break
		}
		off := in.concretize(s.Off, "s2ap")
		// view: array object sharing cells is not representable; only full-object views
		if off == 0 && int(n) == len(s.O.E) {
			slot := new(Value)
			*slot = s.O
			in.set(fr, x, Pointer{P: slot})
		} else {
			in.unsupported("SliceToArrayPointer on sub-slice")
		}
	case *ssa.TypeAssert:
		in.set(fr, x, in.typeAssert(in.get(fr, x.X).(IfaceV), x))
	case *ssa.Extract:
		in.set(fr, x, in.get(fr, x.Tuple).(TupleV)[x.Index])
	case *ssa.Call:
		in.set(fr, x, in.doCall(fr, &x.Call, x))
	case *ssa.Defer:
		cc := x.Call
		fnv, args := in.prepareCall(fr, &cc)
		fr.defers = append(fr.defers, func() { in.invoke(fnv, args, &cc, nil) })
	case *ssa.Go:
		if _, ok := in.eng.cfg.Params["GOSTUB"]; ok {
			// the goroutine is not executed (recorded; part of the claim's assumptions)
			in.stub("go statement: goroutine body not executed")
			in.events = append(in.events, "go")
			break
		}
		in.unsupported("go statement")
	case *ssa.Select:
		if !in.chanModel() {
			in.unsupported("select")
		}
		in.set(fr, x, in.doSelect(fr, x))
	case *ssa.Send:
		if !in.chanModel() {
			in.unsupported("channel send")
		}
		ch, _ := in.get(fr, x.Chan).(*ChanV)
		in.chanSend(ch, in.get(fr, x.X))
	case *ssa.MakeChan:
		if in.inInit > 0 {
			in.set(fr, x, &ChanV{})
			break
		}
		in.uidSeq++
		c := &ChanV{id: in.uidSeq}
		if sz, ok := in.get(fr, x.Size).(*Term); ok && sz.IsConst() {
			c.cap = int(sext64(sz.Val, sz.Sort.W))
		}
		in.set(fr, x, c)
	default:
		in.unsupported(fmt.Sprintf("instruction %T", ins))
	}
}

func (in *Interp) to64(t *Term, typ types.Type) *Term {
	w, signed, _ := basicInfo(typ)
	if w == 64 || t.Sort.W == 64 {
		return t
	}
	if signed {
		return in.ts.Sext(t, 64)
	}
	return in.ts.Zext(t, 64)
}

func (in *Interp) unop(fr *frame, x *ssa.UnOp) Value {
	ts := in.ts
	v := in.get(fr, x.X)
	switch x.Op {
	case token.MUL: // load
		p := v.(Pointer)
		return in.load(p, x.Type())
	case token.NOT:
		return ts.Not(v.(*Term))
	case token.SUB:
		t := v.(*Term)
		if t.Sort.K == SFP {
			return ts.App(OFPNeg, t.Sort, 0, t)
		}
		return ts.BvNeg(t)
	case token.XOR:
		return ts.BvNot(v.(*Term))
	case token.ARROW:
		if in.chanModel() {
			ch, _ := v.(*ChanV)
			et := x.Type()
			if x.CommaOk {
				et = x.Type().(*types.Tuple).At(0).Type()
			}
			val, ok := in.chanRecv(ch, et)
			if x.CommaOk {
				return TupleV{val, in.ts.Bool(ok)}
			}
			return val
		}
		if _, ok := in.eng.cfg.Params["GOSTUB"]; ok {
			in.stub("channel receive: returns the zero value immediately (timers/goroutines are not modelled)")
			if x.CommaOk {
				return TupleV{in.zero(x.Type().(*types.Tuple).At(0).Type()), in.ts.Bool(true)}
			}
			return in.zero(x.Type())
		}
		in.unsupported("channel receive")
	}
	in.unsupported("unop " + x.Op.String())
	return nil
}

func (in *Interp) binop(op token.Token, xt types.Type, a, b Value, yt types.Type) Value {
	ts := in.ts
	switch av := a.(type) {
	case *Term:
		bv, ok := b.(*Term)
		if !ok {
			in.unsupported(fmt.Sprintf("binop term vs %T", b))
		}
		return in.binopTerm(op, xt, av, bv, yt)
	case StrV:
		bs := b.(StrV)
		switch op {
		case token.ADD:
			return in.strConcat(av, bs)
		case token.EQL:
			return in.strEq(av, bs)
		case token.NEQ:
			return ts.Not(in.strEq(av, bs))
		case token.LSS:
			return in.strLess(av, bs, false)
		case token.LEQ:
			return in.strLess(av, bs, true)
		case token.GTR:
			return in.strLess(bs, av, false)
		case token.GEQ:
			return in.strLess(bs, av, true)
		}
	default:
		switch op {
		case token.EQL:
			return in.valEq(a, b)
		case token.NEQ:
			return ts.Not(in.valEq(a, b))
		}
	}
	in.unsupported(fmt.Sprintf("binop %s on %T", op, a))
	return nil
}

func (in *Interp) binopTerm(op token.Token, xt types.Type, a, b *Term, yt types.Type) Value {
	ts := in.ts
	w, signed, kind := basicInfo(xt)
	if kind == "float" {
		return in.fpBinop(op, a, b)
	}
	if kind == "bool" {
		switch op {
		case token.EQL:
			return ts.Eq(a, b)
		case token.NEQ:
			return ts.Not(ts.Eq(a, b))
		case token.LAND, token.AND:
			return ts.And(a, b)
		case token.LOR, token.OR:
			return ts.Or(a, b)
		}
		in.unsupported("bool binop " + op.String())
	}
	switch op {
	case token.SHL, token.SHR:
		// shift count: any integer type
		yw, ysigned, _ := basicInfo(yt)
		_ = yw
		if ysigned {
			in.must(ts.Sle(ts.Const(b.Sort.W, 0), b), "negative shift amount")
		}
		var cnt *Term
		var big *Term
		if b.Sort.W > w {
			big = ts.Ule(ts.Const(b.Sort.W, uint64(w)), b)
			cnt = ts.Extract(b, w-1, 0)
		} else {
			cnt = ts.Zext(b, w)
			big = ts.Ule(ts.Const(w, uint64(w)), cnt)
		}
		if op == token.SHL {
			return ts.Ite(big, ts.Const(w, 0), ts.bin(OShl, a, cnt))
		}
		if signed {
			return ts.Ite(big, ts.bin(OAShr, a, ts.Const(w, uint64(w-1))), ts.bin(OAShr, a, cnt))
		}
		return ts.Ite(big, ts.Const(w, 0), ts.bin(OLShr, a, cnt))
	}
	if a.Sort != b.Sort {
		panic(fmt.Sprintf("binop %s sort mismatch %v %v (%s)", op, a.Sort, b.Sort, xt))
	}
	switch op {
	case token.ADD:
		return ts.Add(a, b)
	case token.SUB:
		return ts.Sub(a, b)
	case token.MUL:
		if nw := in.narrowMul(a, b); nw > 0 {
			return ts.Zext(ts.Mul(ts.Extract(a, nw-1, 0), ts.Extract(b, nw-1, 0)), w)
		}
		return ts.Mul(a, b)
	case token.QUO, token.REM:
		in.must(ts.Not(ts.Eq(b, ts.Const(w, 0))), "integer divide by zero")
		// operands provably small and non-negative: divide at a narrower width
		if nw := in.narrowW(a, b); nw > 0 && nw < w {
			na, nb := ts.Extract(a, nw-1, 0), ts.Extract(b, nw-1, 0)
			if op == token.QUO {
				return ts.Zext(ts.bin(OUDiv, na, nb), w)
			}
			return ts.Zext(ts.bin(OURem, na, nb), w)
		}
		if op == token.QUO {
			if signed {
				return ts.bin(OSDiv, a, b)
			}
			return ts.bin(OUDiv, a, b)
		}
		if signed {
			return ts.bin(OSRem, a, b)
		}
		return ts.bin(OURem, a, b)
	case token.AND:
		return ts.BvAnd(a, b)
	case token.OR:
		return ts.BvOr(a, b)
	case token.XOR:
		return ts.BvXor(a, b)
	case token.AND_NOT:
		return ts.BvAnd(a, ts.BvNot(b))
	case token.EQL:
		return ts.Eq(a, b)
	case token.NEQ:
		return ts.Not(ts.Eq(a, b))
	case token.LSS:
		if signed {
			return ts.Slt(a, b)
		}
		return ts.Ult(a, b)
	case token.LEQ:
		if signed {
			return ts.Sle(a, b)
		}
		return ts.Ule(a, b)
	case token.GTR:
		if signed {
			return ts.Slt(b, a)
		}
		return ts.Ult(b, a)
	case token.GEQ:
		if signed {
			return ts.Sle(b, a)
		}
		return ts.Ule(b, a)
	}
	in.unsupported("int binop " + op.String())
	return nil
}

// narrowW returns a width (8,16,32) at which both operands fit as
// non-negative numbers, or 0.
func (in *Interp) narrowW(a, b *Term) int {
	if a.IsConst() && b.IsConst() {
		return 0
	}
	_, ah := in.ival(a)
	_, bh := in.ival(b)
	for _, nw := range []int{8, 16, 32} {
		lim := uint64(1) << uint(nw-1)
		if nw < a.Sort.W && ah < lim && bh < lim {
			return nw
		}
	}
	return 0
}

func (in *Interp) narrowMul(a, b *Term) int {
	if a.IsConst() || b.IsConst() {
		return 0
	}
	_, ah := in.ival(a)
	_, bh := in.ival(b)
	for _, nw := range []int{16, 32} {
		lim := uint64(1) << uint(nw/2-1)
		if nw < a.Sort.W && ah < lim && bh < lim {
			return nw
		}
	}
	return 0
}

func (in *Interp) fpBinop(op token.Token, a, b *Term) Value {
	ts := in.ts
	if in.fpReal() && !(a.Op == OFPConst && b.Op == OFPConst) {
		return in.fpRealBinop(op, a, b)
	}
	if a.Op == OFPConst && b.Op == OFPConst && a.Sort.W == 64 {
		x, y := math.Float64frombits(a.Val), math.Float64frombits(b.Val)
		switch op {
		case token.ADD:
			return ts.FPConst(64, math.Float64bits(x+y))
		case token.SUB:
			return ts.FPConst(64, math.Float64bits(x-y))
		case token.MUL:
			return ts.FPConst(64, math.Float64bits(x*y))
		case token.QUO:
			return ts.FPConst(64, math.Float64bits(x/y))
		case token.EQL:
			return ts.Bool(x == y)
		case token.NEQ:
			return ts.Bool(x != y)
		case token.LSS:
			return ts.Bool(x < y)
		case token.LEQ:
			return ts.Bool(x <= y)
		case token.GTR:
			return ts.Bool(x > y)
		case token.GEQ:
			return ts.Bool(x >= y)
		}
	}
	switch op {
	case token.ADD:
		return ts.App(OFPAdd, a.Sort, 0, a, b)
	case token.SUB:
		return ts.App(OFPSub, a.Sort, 0, a, b)
	case token.MUL:
		return ts.App(OFPMul, a.Sort, 0, a, b)
	case token.QUO:
		return ts.App(OFPDiv, a.Sort, 0, a, b)
	case token.EQL:
		return ts.App(OFPEq, BoolSort, 0, a, b)
	case token.NEQ:
		return ts.Not(ts.App(OFPEq, BoolSort, 0, a, b))
	case token.LSS:
		return ts.App(OFPLt, BoolSort, 0, a, b)
	case token.LEQ:
		return ts.App(OFPLe, BoolSort, 0, a, b)
	case token.GTR:
		return ts.App(OFPLt, BoolSort, 0, b, a)
	case token.GEQ:
		return ts.App(OFPLe, BoolSort, 0, b, a)
	}
	in.unsupported("fp binop " + op.String())
	return nil
}

// equality of non-scalar comparable values
func (in *Interp) valEq(a, b Value) *Term {
	ts := in.ts
	switch x := a.(type) {
	case *Term:
		y := b.(*Term)
		if x.Sort.K == SFP {
			return ts.App(OFPEq, BoolSort, 0, x, y)
		}
		return ts.Eq(x, y)
	case StrV:
		return in.strEq(x, b.(StrV))
	case Pointer:
		y, ok := b.(Pointer)
		if !ok {
			in.unsupported(fmt.Sprintf("pointer compared with %T", b))
		}
		if x.P != nil || y.P != nil {
			return ts.Bool(x.P == y.P)
		}
		if x.O != y.O {
			return ts.Bool(false)
		}
		if x.O == nil {
			return ts.Bool(true)
		}
		return ts.Eq(x.Idx, y.Idx)
	case SliceV:
		y := b.(SliceV)
		// only comparison with nil is legal
		if y.O == nil && y.Len.IsConst() {
			return ts.Bool(x.O == nil)
		}
		return ts.Bool(y.O == nil && x.O == nil)
	case *MapV:
		y := b.(*MapV)
		return ts.Bool(x == y)
	case *Closure:
		y, _ := b.(*Closure)
		return ts.Bool((x == nil) == (y == nil))
	case *ChanV:
		y, _ := b.(*ChanV)
		return ts.Bool(x == y)
	case IfaceV:
		y := b.(IfaceV)
		if x.T == nil || y.T == nil {
			return ts.Bool(x.T == nil && y.T == nil)
		}
		if !types.Identical(x.T, y.T) {
			return ts.Bool(false)
		}
		return in.valEq(x.V, y.V)
	case *StructV:
		y := b.(*StructV)
		var cs []*Term
		for i := range x.F {
			cs = append(cs, in.valEq(x.F[i], y.F[i]))
		}
		return ts.AndN(cs...)
	case *Obj:
		y := b.(*Obj)
		var cs []*Term
		for i := range x.E {
			cs = append(cs, in.valEq(x.E[i], y.E[i]))
		}
		return ts.AndN(cs...)
	case *ssa.Builtin:
		return ts.Bool(false)
	}
	in.unsupported(fmt.Sprintf("equality on %T", a))
	return nil
}

func (in *Interp) convert(v Value, from, to types.Type) Value {
	ts := in.ts
	fu, tu := under(from), under(to)
	// string conversions
	if tb, ok := tu.(*types.Basic); ok && tb.Info()&types.IsString != 0 {
		switch x := v.(type) {
		case StrV:
			return x
		case SliceV: // []byte or []rune -> string
			if isByteSlice(fu) {
				return in.bytesToString(x)
			}
			in.unsupported("[]rune to string")
		case *Term: // rune/int -> string
			if x.IsConst() {
				return StrV{C: string(rune(sext64(x.Val, x.Sort.W)))}
			}
			in.unsupported("symbolic int to string")
		}
	}
	if _, ok := tu.(*types.Slice); ok {
		if s, ok := v.(StrV); ok {
			if isByteSlice(tu) {
				return in.stringToBytes(s)
			}
			if s.O == nil {
				rs := []rune(s.C)
				o := in.newObj(types.Typ[types.Int32], len(rs))
				for i, r := range rs {
					o.E[i] = ts.Const(32, uint64(r))
				}
				n := ts.Const(64, uint64(len(rs)))
				return SliceV{o, ts.Const(64, 0), n, n}
			}
			in.unsupported("symbolic string to []rune")
		}
		return v
	}
	t, ok := v.(*Term)
	if !ok {
		// pointer <-> unsafe.Pointer etc.
		return v
	}
	fw, fsigned, fk := basicInfo(fu)
	tw, tsigned, tk := basicInfo(tu)
	_ = fw
	switch {
	case fk == "int" && tk == "int":
		if tw <= t.Sort.W {
			return ts.Extract(t, tw-1, 0)
		}
		if fsigned {
			return ts.Sext(t, tw)
		}
		return ts.Zext(t, tw)
	case fk == "int" && tk == "float":
		if t.IsConst() {
			var f float64
			if fsigned {
				f = float64(sext64(t.Val, t.Sort.W))
			} else {
				f = float64(t.Val)
			}
			if tw == 32 {
				return ts.FPConst(32, uint64(math.Float32bits(float32(f))))
			}
			return ts.FPConst(64, math.Float64bits(f))
		}
		if in.fpReal() {
			return in.fpRealFromInt(t, fsigned)
		}
		if fsigned {
			return ts.App(OFPFromS, Sort{SFP, tw}, 0, t)
		}
		return ts.App(OFPFromU, Sort{SFP, tw}, 0, t)
	case fk == "float" && tk == "int":
		if t.Op == OFPConst {
			var f float64
			if t.Sort.W == 32 {
				f = float64(math.Float32frombits(uint32(t.Val)))
			} else {
				f = math.Float64frombits(t.Val)
			}
			if tsigned {
				return ts.Const(tw, uint64(int64(f)))
			}
			return ts.Const(tw, uint64(f))
		}
		if in.fpReal() {
			return in.fpRealToInt(t, tw, tsigned)
		}
		if tsigned {
			return ts.App(OFPToS, BV(tw), 0, t)
		}
		return ts.App(OFPToU, BV(tw), 0, t)
	case fk == "float" && tk == "float":
		if t.Sort.W == tw || t.Sort.K == SReal {
			return t
		}
		if t.Op == OFPConst {
			if tw == 32 {
				return ts.FPConst(32, uint64(math.Float32bits(float32(math.Float64frombits(t.Val)))))
			}
			return ts.FPConst(64, math.Float64bits(float64(math.Float32frombits(uint32(t.Val)))))
		}
		return ts.App(OFPToFP, Sort{SFP, tw}, 0, t)
	case fk == "bool" && tk == "bool":
		return t
	}
	in.unsupported(fmt.Sprintf("convert %s -> %s", from, to))
	return nil
}

func isByteSlice(t types.Type) bool {
	s, ok := under(t).(*types.Slice)
	if !ok {
		return false
	}
	b, ok := under(s.Elem()).(*types.Basic)
	return ok && b.Kind() == types.Uint8
}

func (in *Interp) typeAssert(iv IfaceV, x *ssa.TypeAssert) Value {
	ts := in.ts
	ok := false
	var res Value
	if _, isIface := under(x.AssertedType).(*types.Interface); isIface {
		if iv.T != nil {
			it := under(x.AssertedType).(*types.Interface)
			if types.Implements(iv.T, it) {
				ok = true
				res = iv
			}
		}
		if !ok {
			res = IfaceV{}
		}
	} else {
		if iv.T != nil && types.Identical(iv.T, x.AssertedType) {
			ok = true
			res = iv.V
		} else {
			res = in.zero(x.AssertedType)
		}
	}
	if x.CommaOk {
		return TupleV{res, ts.Bool(ok)}
	}
	if !ok {
		in.end("panic", "interface conversion failed: "+x.AssertedType.String())
	}
	return res
}

// ---------- calls ----------

func (in *Interp) prepareCall(fr *frame, cc *ssa.CallCommon) (Value, []Value) {
	var args []Value
	if cc.IsInvoke() {
		recv := in.get(fr, cc.Value).(IfaceV)
		if recv.T == nil {
			in.end("panic", "nil interface method call: "+cc.Method.Name())
		}
		fn := in.eng.prog.LookupMethod(recv.T, cc.Method.Pkg(), cc.Method.Name())
		if fn == nil {
			in.unsupported("method not found: " + cc.Method.Name() + " on " + recv.T.String())
		}
		args = append(args, recv.V)
		for _, a := range cc.Args {
			args = append(args, in.get(fr, a))
		}
		return &Closure{Fn: fn}, args
	}
	fnv := in.get(fr, cc.Value)
	for _, a := range cc.Args {
		args = append(args, in.get(fr, a))
	}
	return fnv, args
}

func (in *Interp) doCall(fr *frame, cc *ssa.CallCommon, site *ssa.Call) Value {
	fnv, args := in.prepareCall(fr, cc)
	return in.invoke(fnv, args, cc, site)
}

func (in *Interp) invoke(fnv Value, args []Value, cc *ssa.CallCommon, site *ssa.Call) Value {
	switch f := fnv.(type) {
	case *ssa.Builtin:
		return in.builtin(f, args, cc, site)
	case *Closure:
		if f == nil {
			in.end("panic", "call of nil function")
		}
		if f.Fn.Synthetic == "package initializer" {
			// imported package initialisers: run once, lazily, subject to the skip list
			in.ensureInit(f.Fn.Pkg)
			return nil
		}
		if r, ok := in.intrinsic(f.Fn, args, site); ok {
			return r
		}
		return in.call(f.Fn, args, f.Env)
	}
	in.unsupported(fmt.Sprintf("call of %T", fnv))
	return nil
}

func (in *Interp) builtin(b *ssa.Builtin, args []Value, cc *ssa.CallCommon, site *ssa.Call) Value {
	ts := in.ts
	switch b.Name() {
	case "len":
		switch x := args[0].(type) {
		case SliceV:
			return x.Len
		case StrV:
			return in.strLen(x)
		case *MapV:
			if x == nil {
				return ts.Const(64, 0)
			}
			var sum *Term = ts.Const(64, 0)
			for _, e := range x.E {
				sum = ts.Add(sum, ts.Ite(e.Present, ts.Const(64, 1), ts.Const(64, 0)))
			}
			return sum
		case *Obj:
			return ts.Const(64, uint64(len(x.E)))
		case Pointer: // *array
			if x.P != nil {
				if o, ok := (*x.P).(*Obj); ok {
					return ts.Const(64, uint64(len(o.E)))
				}
			}
			at := under(cc.Args[0].Type().(*types.Pointer).Elem()).(*types.Array)
			return ts.Const(64, uint64(at.Len()))
		case *ChanV:
			if x == nil {
				return ts.Const(64, 0)
			}
			return ts.Const(64, uint64(len(x.q)))
		}
	case "cap":
		switch x := args[0].(type) {
		case SliceV:
			return x.Cap
		case *Obj:
			return ts.Const(64, uint64(len(x.E)))
		}
	case "append":
		return in.appendOp(args[0].(SliceV), args[1], cc.Args[0].Type())
	case "copy":
		return in.copyOp(args[0].(SliceV), args[1])
	case "delete":
		m := args[0].(*MapV)
		if m != nil {
			in.mapDelete(m, args[1])
		}
		return nil
	case "panic":
		in.end("panic", "panic: "+in.describe(args[0]))
	case "min", "max":
		typ := cc.Args[0].Type()
		_, signed, kind := basicInfo(typ)
		if kind != "int" {
			in.unsupported("min/max on non-int")
		}
		r := args[0].(*Term)
		for _, a := range args[1:] {
			t := a.(*Term)
			var lt *Term
			if signed {
				lt = ts.Slt(t, r)
			} else {
				lt = ts.Ult(t, r)
			}
			if b.Name() == "max" {
				lt = ts.Not(ts.Or(lt, ts.Eq(t, r)))
				_ = lt
				if signed {
					lt = ts.Slt(r, t)
				} else {
					lt = ts.Ult(r, t)
				}
			}
			r = ts.Ite(lt, t, r)
		}
		return r
	case "clear":
		switch x := args[0].(type) {
		case *MapV:
			if x != nil {
				x.E = nil
			}
			return nil
		case SliceV:
			et := under(cc.Args[0].Type()).(*types.Slice).Elem()
			if x.O == nil {
				return nil
			}
			n := in.concretize(x.Len, "clear")
			off := in.concretize(x.Off, "clear")
			for i := uint64(0); i < n; i++ {
				in.writeObj(x.O, int(off+i), in.zero(et))
			}
			return nil
		}
	case "print", "println":
		return nil
	case "SliceData":
		s := args[0].(SliceV)
		if s.O == nil {
			return Pointer{}
		}
		return Pointer{O: s.O, Idx: s.Off}
	case "StringData":
		s := args[0].(StrV)
		if s.O == nil {
			if s.C == "" {
				return Pointer{}
			}
			s = in.strObj(s)
		}
		return Pointer{O: s.O, Idx: s.Off}
	case "String", "Slice":
		p := args[0].(Pointer)
		n := in.to64(args[1].(*Term), cc.Args[1].Type())
		var off *Term
		switch {
		case p.O == nil:
			if b.Name() == "String" {
				return StrV{}
			}
			z := ts.Const(64, 0)
			return SliceV{nil, z, z, z}
		case p.P != nil:
			off = ts.Const(64, uint64(p.K))
		default:
			off = p.Idx
		}
		if b.Name() == "String" {
			return StrV{O: p.O, Off: off, Len: n}
		}
		return SliceV{p.O, off, n, n}
	case "ssa:wrapnilchk":
		p, ok := args[0].(Pointer)
		if ok && p.IsNil() {
			in.end("panic", "value method called using nil pointer")
		}
		return args[0]
	case "close":
		// channels are not modelled beyond their closed flag (observable through zzChanClosed)
		if ch, ok := args[0].(*ChanV); ok && ch != nil {
			if ch.closed {
				in.end("panic", "close of closed channel")
			}
			ch.closed = true
		}
		in.events = append(in.events, "chan-close")
		return nil
	case "recover":
		return IfaceV{}
	}
	in.unsupported("builtin " + b.Name())
	return nil
}

var _ = big.NewInt

// ---- sequential channel model (parameter CHANMODEL) ----
// A channel is a FIFO of at most cap values. There is no second goroutine: a
// send without room, a receive from an empty open channel and a blocking
// select without a ready case end the path as "blocked" (the harness decides
// whether that is acceptable with -allow). A select with several ready cases
// forks on a fresh scheduler choice.

func (in *Interp) chanModel() bool {
	_, ok := in.eng.cfg.Params["CHANMODEL"]
	return ok
}

func (in *Interp) chanSend(ch *ChanV, v Value) {
	if ch == nil {
		in.end("blocked", "send on nil channel")
	}
	if ch.closed {
		in.end("panic", "send on closed channel")
	}
	if len(ch.q) >= ch.cap {
		in.end("blocked", "send on a channel without room (no concurrent receiver in the sequential model)")
	}
	ch.q = append(ch.q, in.copyVal(v))
	in.events = append(in.events, "chan-send")
}

func (in *Interp) chanRecv(ch *ChanV, et types.Type) (Value, bool) {
	if ch == nil {
		in.end("blocked", "receive from nil channel")
	}
	if len(ch.q) > 0 {
		v := ch.q[0]
		ch.q = ch.q[1:]
		return v, true
	}
	if ch.closed {
		return in.zero(et), false
	}
	in.end("blocked", "receive from an empty channel (no concurrent sender in the sequential model)")
	return nil, false
}

func (in *Interp) doSelect(fr *frame, x *ssa.Select) Value {
	ts := in.ts
	var ready []int
	chans := make([]*ChanV, len(x.States))
	for i, st := range x.States {
		ch, _ := in.get(fr, st.Chan).(*ChanV)
		chans[i] = ch
		if ch == nil {
			continue
		}
		if st.Dir == types.RecvOnly {
			if len(ch.q) > 0 || ch.closed {
				ready = append(ready, i)
			}
		} else if ch.closed || len(ch.q) < ch.cap {
			ready = append(ready, i)
		}
	}
	idx := -1
	switch {
	case len(ready) == 0:
		if x.Blocking {
			in.end("blocked", "select: no case ready")
		}
	case len(ready) == 1:
		idx = ready[0]
	default:
		k := in.freshVar("select.choice", BV(64))
		alts := make([]*Term, len(ready))
		for j := range ready {
			alts[j] = ts.Eq(k, ts.Const(64, uint64(j)))
		}
		in.stub("select with several ready cases: forks on a scheduler choice")
		idx = ready[in.fork(alts, "select choice")]
	}
	tup := x.Type().(*types.Tuple)
	res := make(TupleV, tup.Len())
	res[0] = ts.Const(64, uint64(int64(idx)))
	res[1] = ts.Bool(false)
	r := 2
	for i, st := range x.States {
		if st.Dir != types.RecvOnly {
			if i == idx {
				in.chanSend(chans[i], in.get(fr, st.Send))
			}
			continue
		}
		et := tup.At(r).Type()
		if i == idx {
			v, ok := in.chanRecv(chans[i], et)
			res[r] = v
			res[1] = ts.Bool(ok)
		} else {
			res[r] = in.zero(et)
		}
		r++
	}
	return res
}
