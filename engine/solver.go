package main

// Persistent SMT solver process (z3 -in / z3-new -in / cvc5 --incremental).

import (
	"bufio"
	"fmt"
	"io"
	"os"
	"os/exec"
	"strconv"
	"strings"
	"time"
)

type Verdict int

const (
	Unsat Verdict = iota
	Sat
	Unknown
)

func (v Verdict) String() string {
	return [...]string{"unsat", "sat", "unknown"}[v]
}

type Solver struct {
	kind      string // z3, z3-new, cvc5, cvc5-int
	cmd       *exec.Cmd
	in        io.WriteCloser
	out       *bufio.Reader
	timeoutMs int
	defined   []map[int]bool // per push level: term ids defined
	declared  []map[string]bool
	level     int
	log       io.Writer
	// stats
	Queries  [3]int
	Time     time.Duration
	Errors   int
	restarts int
	lines    chan string
	dead     bool
	onRestart func()
}

func solverArgv(kind string, timeoutMs int) []string {
	switch kind {
	case "z3":
		return []string{"z3", "-in", "-t:" + strconv.Itoa(timeoutMs)}
	case "z3-new":
		return []string{"z3-new", "-in", "-t:" + strconv.Itoa(timeoutMs)}
	case "cvc5":
		return []string{"cvc5", "--incremental", "--produce-models", "--lang=smt2", "--tlimit-per=" + strconv.Itoa(timeoutMs)}
	case "cvc5-int":
		return []string{"cvc5", "--incremental", "--produce-models", "--lang=smt2", "--solve-bv-as-int=sum", "--tlimit-per=" + strconv.Itoa(timeoutMs)}
	}
	panic("unknown solver " + kind)
}

func NewSolver(kind string, timeoutMs int, logw io.Writer) (*Solver, error) {
	s := &Solver{kind: kind, timeoutMs: timeoutMs, log: logw}
	if err := s.start(); err != nil {
		return nil, err
	}
	return s, nil
}

func (s *Solver) start() error {
	argv := solverArgv(s.kind, s.timeoutMs)
	s.cmd = exec.Command(argv[0], argv[1:]...)
	in, err := s.cmd.StdinPipe()
	if err != nil {
		return err
	}
	outp, err := s.cmd.StdoutPipe()
	if err != nil {
		return err
	}
	s.cmd.Stderr = os.Stderr
	if err := s.cmd.Start(); err != nil {
		return err
	}
	s.in = in
	s.out = bufio.NewReaderSize(outp, 1<<20)
	s.lines = make(chan string, 1024)
	s.dead = false
	go func(r *bufio.Reader, ch chan string) {
		for {
			line, err := r.ReadString('\n')
			if line != "" {
				ch <- strings.TrimRight(line, "\r\n")
			}
			if err != nil {
				close(ch)
				return
			}
		}
	}(s.out, s.lines)
	s.defined = []map[int]bool{{}}
	s.declared = []map[string]bool{{}}
	s.level = 0
	if strings.HasPrefix(s.kind, "cvc5") {
		s.send("(set-logic ALL)")
	}
	s.send("(set-option :produce-models true)")
	return nil
}

func (s *Solver) Close() {
	if s.cmd != nil && s.cmd.Process != nil {
		s.in.Close()
		s.cmd.Process.Kill()
		s.cmd.Wait()
	}
}

func (s *Solver) restart() {
	s.Close()
	s.restarts++
	if err := s.start(); err != nil {
		panic(err)
	}
	if s.onRestart != nil {
		s.onRestart()
	}
}

func (s *Solver) send(cmd string) {
	if s.log != nil {
		fmt.Fprintln(s.log, cmd)
	}
	io.WriteString(s.in, cmd)
	io.WriteString(s.in, "\n")
}

func (s *Solver) readLine(deadline time.Duration) (string, bool) {
	select {
	case l, ok := <-s.lines:
		if !ok {
			s.dead = true
			return "", false
		}
		return l, true
	case <-time.After(deadline):
		return "", false
	}
}

func (s *Solver) Push() {
	s.send("(push 1)")
	s.level++
	s.defined = append(s.defined, map[int]bool{})
	s.declared = append(s.declared, map[string]bool{})
}

func (s *Solver) Pop() {
	s.send("(pop 1)")
	s.level--
	s.defined = s.defined[:len(s.defined)-1]
	s.declared = s.declared[:len(s.declared)-1]
}

func (s *Solver) isDefined(id int) bool {
	for _, m := range s.defined {
		if m[id] {
			return true
		}
	}
	return false
}
func (s *Solver) isDeclared(n string) bool {
	for _, m := range s.declared {
		if m[n] {
			return true
		}
	}
	return false
}

// Define makes sure t (and all sub-terms) are defined at the current level.
func (s *Solver) Define(ts *TermStore, t *Term) {
	// iterative post-order
	type fr struct {
		t *Term
		i int
	}
	stack := []fr{{t, 0}}
	for len(stack) > 0 {
		f := &stack[len(stack)-1]
		if f.i == 0 {
			if f.t.Op == OVar {
				if !s.isDeclared(f.t.Name) {
					s.declared[s.level][f.t.Name] = true
					s.send(fmt.Sprintf("(declare-const |%s| %s)", f.t.Name, f.t.Sort))
				}
				stack = stack[:len(stack)-1]
				continue
			}
			if f.t.Op == OUF {
				if !s.isDeclared("uf:" + f.t.Name) {
					s.declared[s.level]["uf:"+f.t.Name] = true
					s.send(ts.UFs[f.t.Name])
				}
			}
			if f.t.leaf() || s.isDefined(f.t.id) {
				stack = stack[:len(stack)-1]
				continue
			}
		}
		if f.i < len(f.t.Args) {
			a := f.t.Args[f.i]
			f.i++
			stack = append(stack, fr{a, 0})
			continue
		}
		tt := f.t
		stack = stack[:len(stack)-1]
		if s.isDefined(tt.id) {
			continue
		}
		s.defined[s.level][tt.id] = true
		s.send(fmt.Sprintf("(define-fun t%d () %s %s)", tt.id, tt.Sort, tt.head()))
	}
}

func (s *Solver) Assert(ts *TermStore, t *Term) {
	s.Define(ts, t)
	s.send("(assert " + t.ref() + ")")
}

// Check runs check-sat with optional extra assumption (pushed and popped).
// If wantModel, vars' values are fetched on sat.
func (s *Solver) Check(ts *TermStore, extra *Term, wantModel bool, vars []*Term) (Verdict, Model) {
	t0 := time.Now()
	defer func() { s.Time += time.Since(t0) }()
	if extra != nil {
		s.Define(ts, extra)
		s.send("(push 1)")
		s.send("(assert " + extra.ref() + ")")
	}
	s.send("(check-sat)")
	s.send("(echo \"ZZDONE\")")
	verdict := Unknown
	gotErr := false
	dl := time.Duration(s.timeoutMs)*time.Millisecond*2 + 5*time.Second
	for {
		l, ok := s.readLine(dl)
		if !ok {
			// solver hung or died
			s.Errors++
			s.restart()
			s.Queries[Unknown]++
			return Unknown, nil
		}
		if l == "ZZDONE" || l == "\"ZZDONE\"" {
			break
		}
		switch {
		case l == "sat":
			verdict = Sat
		case l == "unsat":
			verdict = Unsat
		case l == "unknown" || l == "timeout":
			verdict = Unknown
		case strings.Contains(l, "(error"):
			gotErr = true
			fmt.Fprintln(os.Stderr, "SOLVER ERROR:", l)
		}
	}
	if gotErr {
		s.Errors++
		verdict = Unknown
	}
	var m Model
	if verdict == Sat && wantModel && len(vars) > 0 {
		m = s.getModel(vars)
	}
	if extra != nil {
		s.send("(pop 1)")
	}
	s.Queries[verdict]++
	if verdict == Unknown && !gotErr {
		// a timed-out incremental solver is not trusted any further: start a fresh
		// process and re-assert the path condition (observed: z3 answering "sat" with
		// a model that violates asserted constraints right after a timeout)
		s.restart()
	}
	return verdict, m
}

func (s *Solver) getModel(vars []*Term) Model {
	m := Model{}
	// only BV/Bool vars that are declared
	var names []string
	var vs []*Term
	for _, v := range vars {
		if (v.Sort.K == SBV || v.Sort.K == SBool) && s.isDeclared(v.Name) {
			names = append(names, "|"+v.Name+"|")
			vs = append(vs, v)
		}
	}
	if len(names) == 0 {
		return m
	}
	// chunk to keep lines reasonable
	const chunk = 200
	for i := 0; i < len(names); i += chunk {
		j := i + chunk
		if j > len(names) {
			j = len(names)
		}
		s.send("(get-value (" + strings.Join(names[i:j], " ") + "))")
		s.send("(echo \"ZZDONE\")")
		var sb strings.Builder
		for {
			l, ok := s.readLine(30 * time.Second)
			if !ok {
				s.Errors++
				return m
			}
			if l == "ZZDONE" || l == "\"ZZDONE\"" {
				break
			}
			sb.WriteString(l)
			sb.WriteByte(' ')
		}
		parseGetValue(sb.String(), m)
	}
	return m
}

// parse "((|a| #x0a) (|b| true) ...)"
func parseGetValue(s string, m Model) {
	i := 0
	n := len(s)
	for i < n {
		// find "(|"
		k := strings.Index(s[i:], "(|")
		if k < 0 {
			return
		}
		i += k + 2
		e := strings.IndexByte(s[i:], '|')
		if e < 0 {
			return
		}
		name := s[i : i+e]
		i += e + 1
		for i < n && s[i] == ' ' {
			i++
		}
		// value until matching ')'
		j := i
		depth := 0
		for j < n {
			if s[j] == '(' {
				depth++
			} else if s[j] == ')' {
				if depth == 0 {
					break
				}
				depth--
			}
			j++
		}
		val := strings.TrimSpace(s[i:j])
		i = j + 1
		switch {
		case val == "true":
			m[name] = 1
		case val == "false":
			m[name] = 0
		case strings.HasPrefix(val, "#x"):
			v, _ := strconv.ParseUint(val[2:], 16, 64)
			m[name] = v
		case strings.HasPrefix(val, "#b"):
			v, _ := strconv.ParseUint(val[2:], 2, 64)
			m[name] = v
		case strings.HasPrefix(val, "(_ bv"):
			f := strings.Fields(val[5:])
			v, _ := strconv.ParseUint(f[0], 10, 64)
			m[name] = v
		}
	}
}
