package main

import (
	"fmt"
	"go/types"
)

const hashArity = 160 // bytes of input that the uninterpreted hash can see

// hashHex models md5Hex / sha256Hex: an uninterpreted function of the input
// string (length and up to hashArity bytes, zero-padded) producing `words`
// 64-bit words, rendered as lower-case hex; collision freedom is axiomatised
// pairwise over the applications made on the current path.
func (in *Interp) hashHex(name string, words int, s StrV) Value {
	ts := in.ts
	in.stub(name + "Hex as an uninterpreted collision-free function (cryptographic assumption)")
	v := in.viewOf(s)
	if v.O == nil {
		v = in.viewOf(in.strObj(StrV{C: ""}))
	}
	_, hi := in.ival(v.Len)
	if hi > hashArity {
		in.unsupported("hash input longer than the modelled arity")
	}
	args := make([]*Term, 0, hashArity+1)
	args = append(args, v.Len)
	for k := 0; k < hashArity; k++ {
		kc := ts.Const(64, uint64(k))
		if uint64(k) >= hi {
			args = append(args, ts.Const(8, 0))
			continue
		}
		args = append(args, ts.Ite(ts.Ult(kc, v.Len), in.viewAt(v, kc), ts.Const(8, 0)))
	}
	res := make([]*Term, words)
	for w := 0; w < words; w++ {
		res[w] = ts.UF(fmt.Sprintf("%s_w%d", name, w), BV(64), args...)
	}
	// collision freedom against earlier applications of the same function
	for _, prev := range in.ackermann[name] {
		var sameRes, sameArgs []*Term
		for w := 0; w < words; w++ {
			sameRes = append(sameRes, ts.Eq(res[w], prev.resw[w]))
		}
		for i := range args {
			sameArgs = append(sameArgs, ts.Eq(args[i], prev.args[i]))
		}
		ax := ts.Implies(ts.AndN(sameRes...), ts.AndN(sameArgs...))
		in.addPC(ax)
	}
	in.ackermann[name] = append(in.ackermann[name], ufApp{args: args, resw: res})
	// hex rendering
	n := words * 16
	o := in.newObj(types.Typ[types.Uint8], n)
	for w := 0; w < words; w++ {
		for d := 0; d < 16; d++ {
			nib := ts.Extract(res[w], 63-4*d, 60-4*d)
			nib8 := ts.Zext(nib, 8)
			ch := ts.Ite(ts.Ult(nib8, ts.Const(8, 10)), ts.Add(nib8, ts.Const(8, '0')), ts.Add(nib8, ts.Const(8, 'a'-10)))
			o.E[w*16+d] = ch
		}
	}
	o.frozen = true
	return StrV{O: o, Off: ts.Const(64, 0), Len: ts.Const(64, uint64(n))}
}
