package main

import (
	"fmt"
	"go/token"
	"go/types"
	"os"
	"sort"
	"strings"
	"sync"
	"time"

	"golang.org/x/tools/go/ssa"
)

type decision struct {
	Alt int
	Val uint64
}

type Config struct {
	Unwind      int
	MaxSteps    int
	MaxPaths    int
	MaxAlloc    int
	QTimeoutMs  int
	Solver      string
	Workers     int
	Params      map[string]int64
	MapPerm     bool
	AppendSlack int
	FPReal      bool
	ConcOff     bool
	AllowUnwind bool
	Verbose     bool
	MaxViol     int
	SolverLog   string
	Deadline    time.Time
}

type nondetRec struct {
	Name  string
	Kind  string // u8,u16,u32,u64,int,bool,bytes
	Terms []*Term
	Len   *Term
	LO    *Obj // length-only input buffer: bytes read at constant offsets
}

type Violation struct {
	Kind    string                   `json:"kind"` // assert | panic | unwind | event
	Tag     string                   `json:"tag"`
	Pos     string                   `json:"pos"`
	Vector  []map[string]interface{} `json:"vector"`
	PathLen int                      `json:"path_len"`
	Stack   []string                 `json:"stack,omitempty"`
}

type Obligation struct {
	Tag        string `json:"tag"`
	Queries    int    `json:"queries"`
	Discharged int    `json:"discharged"`
	Trivial    int    `json:"trivial"`
	Sat        int    `json:"sat"`
	Unknown    int    `json:"unknown"`
}

type Engine struct {
	prog  *ssa.Program
	cfg   Config
	entry *ssa.Function

	mu          sync.Mutex
	work        [][]decision
	inflight    int
	cond        *sync.Cond
	paths       int
	ends        map[string]int
	endSamples  map[string][]string
	oblig       map[string]*Obligation
	covers      map[string]int
	coverDecl   map[string]bool
	viols       []Violation
	violSeen    map[string]int
	funcs       map[string]int
	steps       int64
	branches    int64
	forkQueries int64
	solverTime  time.Duration
	queries     [3]int
	solverErrs  int
	samples     []string
	stubs       map[string]int
	assumes     map[string]int
	sigs        map[string]bool
	stopped     bool
	stopReason  string
	unsupported map[string]int
	expectFail  map[string]bool
	mustFailSat map[string]int
	twinVec     map[string][]map[string]interface{}
	notes       map[string]int
}

func NewEngine(prog *ssa.Program, entry *ssa.Function, cfg Config) *Engine {
	e := &Engine{prog: prog, cfg: cfg, entry: entry,
		ends: map[string]int{}, endSamples: map[string][]string{}, oblig: map[string]*Obligation{},
		covers: map[string]int{}, coverDecl: map[string]bool{}, violSeen: map[string]int{},
		funcs: map[string]int{}, stubs: map[string]int{}, assumes: map[string]int{}, sigs: map[string]bool{},
		unsupported: map[string]int{}, expectFail: map[string]bool{}, mustFailSat: map[string]int{}, twinVec: map[string][]map[string]interface{}{}, notes: map[string]int{}}
	e.cond = sync.NewCond(&e.mu)
	return e
}

func (e *Engine) Run() {
	e.work = append(e.work, nil)
	var wg sync.WaitGroup
	for w := 0; w < e.cfg.Workers; w++ {
		wg.Add(1)
		go func(id int) {
			defer wg.Done()
			e.worker(id)
		}(w)
	}
	wg.Wait()
}

func (e *Engine) next() ([]decision, bool) {
	e.mu.Lock()
	defer e.mu.Unlock()
	for {
		if e.stopped {
			return nil, false
		}
		if len(e.work) > 0 {
			// DFS-ish: take the last
			it := e.work[len(e.work)-1]
			e.work = e.work[:len(e.work)-1]
			e.inflight++
			return it, true
		}
		if e.inflight == 0 {
			e.cond.Broadcast()
			return nil, false
		}
		e.cond.Wait()
	}
}

func (e *Engine) done() {
	e.mu.Lock()
	e.inflight--
	e.paths++
	if e.cfg.MaxPaths > 0 && e.paths >= e.cfg.MaxPaths && !e.stopped {
		e.stopped = true
		e.stopReason = "max-paths"
	}
	if !e.cfg.Deadline.IsZero() && time.Now().After(e.cfg.Deadline) && !e.stopped {
		e.stopped = true
		e.stopReason = "deadline"
	}
	e.cond.Broadcast()
	e.mu.Unlock()
}

func (e *Engine) push(p []decision) {
	e.mu.Lock()
	e.work = append(e.work, p)
	e.cond.Signal()
	e.mu.Unlock()
}

func (e *Engine) worker(id int) {
	var logw *os.File
	if e.cfg.SolverLog != "" && id == 0 {
		logw, _ = os.Create(e.cfg.SolverLog)
		defer logw.Close()
	}
	var sol *Solver
	var err error
	if logw != nil {
		sol, err = NewSolver(e.cfg.Solver, e.cfg.QTimeoutMs, logw)
	} else {
		sol, err = NewSolver(e.cfg.Solver, e.cfg.QTimeoutMs, nil)
	}
	if err != nil {
		panic(err)
	}
	defer sol.Close()
	in := &Interp{eng: e, sol: sol, globals: map[*ssa.Global]*Value{}, initDone: map[*ssa.Package]bool{},
		regIdx: map[*ssa.Function]map[ssa.Value]int{}, worker: id}
	npaths := 0
	for {
		prefix, ok := e.next()
		if !ok {
			break
		}
		in.runPath(prefix)
		e.done()
		npaths++
		if npaths%200 == 0 {
			// keep the solver process small
			in.flushSolverStats()
			sol.restart()
		}
	}
	in.flushSolverStats()
}

func (in *Interp) flushSolverStats() {
	e := in.eng
	e.mu.Lock()
	for i := 0; i < 3; i++ {
		e.queries[i] += in.sol.Queries[i]
		in.sol.Queries[i] = 0
	}
	e.solverTime += in.sol.Time
	in.sol.Time = 0
	e.solverErrs += in.sol.Errors
	in.sol.Errors = 0
	e.mu.Unlock()
}

// ------------------------------------------------------------------

type frame struct {
	fn     *ssa.Function
	regs   []Value
	idx    map[ssa.Value]int
	defers []func()
	visits map[int]int
	pos    token.Pos
	env    []Value
}

type Interp struct {
	eng    *Engine
	worker int
	ts     *TermStore
	sol    *Solver
	pc     []*Term
	model  Model
	mcache map[int]uint64

	prefix []decision
	dpos   int
	decs   []decision

	globals  map[*ssa.Global]*Value
	initDone map[*ssa.Package]bool
	inInit   int
	regIdx   map[*ssa.Function]map[ssa.Value]int

	nondets                 []nondetRec
	nondetSeq               int
	objSeq                  int
	steps                   int
	stack                   []*frame
	vrange                  map[int][2]uint64
	events                  []string
	pathFuncs               map[string]int
	sig                     strings.Builder
	symBranch               int
	lockHeld                map[*Value]bool
	trace                   []string
	uidSeq                  int
	ackermann               map[string][]ufApp
	pathNotes               []string
	wraps                   map[*Value]IfaceV
	nowSeq                  int
	lastNowSec, lastNowNsec *Term
	pcSet      map[int]bool
	initBudget int
	pending    []pendingChk
	flushing   bool
	rb         map[int]float64
	rocTab     map[*Value][][2]*Term
	ntpTab     map[int]*StructV
	nowSecs    []*Term
	monDiffs   []*Term // visibility conditions of writes into monitored buffers
	ntpVars    map[int]*Term
}

type ufApp struct {
	args []*Term
	res  *Term
	resw []*Term
}

func (in *Interp) posStr() string {
	for i := len(in.stack) - 1; i >= 0; i-- {
		f := in.stack[i]
		if f.pos.IsValid() {
			p := in.eng.prog.Fset.Position(f.pos)
			fn := p.Filename
			if k := strings.LastIndex(fn, "/"); k >= 0 {
				// keep last two components
				if k2 := strings.LastIndex(fn[:k], "/"); k2 >= 0 {
					fn = fn[k2+1:]
				}
			}
			return fmt.Sprintf("%s:%d", fn, p.Line)
		}
	}
	return "?"
}

func (in *Interp) stackStr() []string {
	var out []string
	for i := len(in.stack) - 1; i >= 0 && len(out) < 12; i-- {
		f := in.stack[i]
		p := in.eng.prog.Fset.Position(f.pos)
		out = append(out, fmt.Sprintf("%s (%s:%d)", f.fn.String(), shortFile(p.Filename), p.Line))
	}
	return out
}

func shortFile(fn string) string {
	if k := strings.LastIndex(fn, "/"); k >= 0 {
		if k2 := strings.LastIndex(fn[:k], "/"); k2 >= 0 {
			return fn[k2+1:]
		}
	}
	return fn
}

func (in *Interp) end(kind, msg string) {
	panic(pathEnd{Kind: kind, Msg: msg, Pos: in.posStr()})
}

func (in *Interp) unsupported(what string) {
	in.end("unsupported", what)
}

func (in *Interp) runPath(prefix []decision) {
	e := in.eng
	in.ts = NewTermStore()
	in.pc = nil
	in.model = Model{}
	in.mcache = map[int]uint64{}
	in.prefix = prefix
	in.dpos = 0
	in.decs = in.decs[:0]
	in.nondets = nil
	in.nondetSeq = 0
	in.steps = 0
	in.stack = in.stack[:0]
	in.vrange = map[int][2]uint64{}
	in.events = nil
	in.pathFuncs = map[string]int{}
	in.sig.Reset()
	in.symBranch = 0
	in.lockHeld = map[*Value]bool{}
	in.ackermann = map[string][]ufApp{}
	in.pathNotes = nil
	in.sol.onRestart = func() {
		in.sol.Push()
		for _, c := range in.pc {
			in.sol.Assert(in.ts, c)
		}
		in.note("solver-restarted-mid-path")
	}
	in.wraps = nil
	in.pcSet = map[int]bool{}
	in.pending = nil
	in.flushing = false
	in.rb = nil
	in.rocTab = nil
	in.ntpTab = nil
	in.nowSecs = nil
	in.monDiffs = nil
	in.ntpVars = nil
	in.nowSeq = 0
	in.lastNowSec, in.lastNowNsec = nil, nil
	in.sol.Push()
	var pe pathEnd
	func() {
		defer func() {
			if r := recover(); r != nil {
				if p, ok := r.(pathEnd); ok {
					pe = p
					return
				}
				// engine bug: report as unsupported with message
				pe = pathEnd{Kind: "engine-error", Msg: fmt.Sprint(r), Pos: in.posStr()}
				if e.cfg.Verbose {
					fmt.Fprintf(os.Stderr, "ENGINE ERROR: %v\n%s\n", r, strings.Join(in.stackStr(), "\n"))
					panic(r)
				}
			}
		}()
		in.call(e.entry, nil, nil)
		pe = pathEnd{Kind: "ok"}
	}()
	// decide the run-time checks still pending when the path ended (for
	// whatever reason): a failing one turns the path into a panic path
	func() {
		defer func() {
			if r := recover(); r != nil {
				if p, ok := r.(pathEnd); ok {
					pe = p
					return
				}
				pe = pathEnd{Kind: "engine-error", Msg: fmt.Sprint(r), Pos: in.posStr()}
			}
		}()
		in.flush()
	}()
	// a feasible panic / unwind is a violation candidate; a path kept after an
	// undecided branch may be infeasible, so its path condition is decided first
	if (pe.Kind == "panic" || pe.Kind == "unwind") && in.model == nil {
		v, m := in.check(nil, true, in.ts.Vars)
		switch v {
		case Sat:
			in.setModel(m)
		case Unsat:
			pe = pathEnd{Kind: "infeasible", Msg: "pc unsat at " + pe.Kind + ": " + pe.Msg, Pos: pe.Pos}
		default:
			pe = pathEnd{Kind: pe.Kind + "-undecided", Msg: "feasibility of the path undecided: " + pe.Msg, Pos: pe.Pos}
		}
	}
	switch pe.Kind {
	case "panic":
		in.reportViolation("panic", pe.Msg, pe.Pos)
	case "unwind":
		if !e.cfg.AllowUnwind {
			in.reportViolation("unwind", pe.Msg, pe.Pos)
		}
	}
	in.sol.onRestart = nil
	in.sol.Pop()
	e.mu.Lock()
	e.ends[pe.Kind]++
	if pe.Kind != "ok" {
		key := pe.Kind
		if len(e.endSamples[key]) < 8 {
			s := pe.Msg + " @" + pe.Pos
			dup := false
			for _, x := range e.endSamples[key] {
				if x == s {
					dup = true
				}
			}
			if !dup {
				e.endSamples[key] = append(e.endSamples[key], s)
			}
		}
		if pe.Kind == "unsupported" || pe.Kind == "engine-error" {
			e.unsupported[pe.Msg+" @"+pe.Pos]++
		}
	}
	for k, v := range in.pathFuncs {
		e.funcs[k] += v
	}
	e.steps += int64(in.steps)
	if in.symBranch > 0 {
		e.sigs[in.sig.String()] = true
	}
	if len(e.samples) < 6 && in.symBranch > 0 && pe.Kind == "ok" {
		e.samples = append(e.samples, in.describePath(pe))
	}
	for _, n := range in.pathNotes {
		e.notes[n]++
	}
	e.mu.Unlock()
}

func (in *Interp) describePath(pe pathEnd) string {
	var sb strings.Builder
	fmt.Fprintf(&sb, "path end=%s decisions=%d pc=[", pe.Kind, len(in.decs))
	n := 0
	for _, c := range in.pc {
		if n >= 6 {
			sb.WriteString(" …")
			break
		}
		if n > 0 {
			sb.WriteString(" ∧ ")
		}
		sb.WriteString(c.String())
		n++
	}
	sb.WriteString("]")
	s := sb.String()
	if len(s) > 900 {
		s = s[:900] + "…"
	}
	return s
}

// ---------------- path condition / forking ----------------

func (in *Interp) evalModel(t *Term) (bool, bool) {
	if in.model == nil {
		return false, false
	}
	v, ok := t.Eval(in.model, in.mcache)
	return v != 0, ok
}

func (in *Interp) addPC(t *Term) {
	if t.IsTrue() {
		return
	}
	if in.pcSet[t.id] {
		return
	}
	in.pcSet[t.id] = true
	if t.Op == OBAnd {
		for _, a := range t.Args {
			in.pcSet[a.id] = true
		}
	}
	in.pc = append(in.pc, t)
	in.sol.Assert(in.ts, t)
	in.learn(t)
}

// learn refines the interval table from a constraint that now holds on this
// path (sound: the path condition only grows).
func (in *Interp) learn(c *Term) {
	switch c.Op {
	case OBAnd:
		for _, a := range c.Args {
			in.learn(a)
		}
	case OEq:
		a, b := c.Args[0], c.Args[1]
		if a.Sort.K != SBV {
			return
		}
		if b.IsConst() {
			in.setRange(a, b.Val, b.Val)
		} else if a.IsConst() {
			in.setRange(b, a.Val, a.Val)
		}
	case OUlt, OUle:
		a, b := c.Args[0], c.Args[1]
		d := uint64(0)
		if c.Op == OUlt {
			d = 1
		}
		al, _ := in.ival(a)
		_, bh := in.ival(b)
		if bh >= d {
			in.setRange(a, 0, bh-d)
		}
		if al <= fullHi-d {
			in.setRange(b, al+d, mask(b.Sort.W))
		}
	case OBNot:
		x := c.Args[0]
		switch x.Op {
		case OUlt: // a >= b
			a, b := x.Args[0], x.Args[1]
			bl, _ := in.ival(b)
			_, ah := in.ival(a)
			in.setRange(a, bl, mask(a.Sort.W))
			in.setRange(b, 0, ah)
		case OUle: // a > b
			a, b := x.Args[0], x.Args[1]
			bl, _ := in.ival(b)
			_, ah := in.ival(a)
			if bl < fullHi {
				in.setRange(a, bl+1, mask(a.Sort.W))
			}
			if ah > 0 {
				in.setRange(b, 0, ah-1)
			}
		}
	case OSlt, OSle:
		a, b := c.Args[0], c.Args[1]
		w := a.Sort.W
		half := uint64(1) << uint(w-1)
		d := uint64(0)
		if c.Op == OSlt {
			d = 1
		}
		// 0 <= x  (or c <= x with c >= 0): x is non-negative
		if a.IsConst() && a.Val < half {
			_, bh := in.ival(b)
			if bh >= half {
				bh = half - 1
			}
			if a.Val+d <= bh {
				in.setRange(b, a.Val+d, bh)
			}
		}
		// x <= c with c >= 0 and x known non-negative
		if b.IsConst() && b.Val < half {
			al, ah := in.ival(a)
			if ah < half && b.Val >= d && al <= b.Val-d {
				in.setRange(a, al, b.Val-d)
			}
		}
	}
}

func (in *Interp) setRange(t *Term, lo, hi uint64) {
	if t.IsConst() {
		return
	}
	ol, oh := in.ival(t)
	if lo < ol {
		lo = ol
	}
	if hi > oh {
		hi = oh
	}
	if lo > hi {
		return // contradictory (path will be infeasible); keep old
	}
	if lo != ol || hi != oh {
		in.vrange[t.id] = [2]uint64{lo, hi}
		// propagate through zext / +const
		switch t.Op {
		case OZext:
			in.setRange(t.Args[0], lo, hi)
		case OAdd:
			if t.Args[1].IsConst() {
				c := t.Args[1].Val
				al, ah := in.ival(t.Args[0])
				// no wrap if ah + c does not overflow
				m := mask(t.Sort.W)
				if c <= m && ah <= m-c && lo >= c {
					_ = al
					in.setRange(t.Args[0], lo-c, hi-c)
				}
			}
		}
	}
}

// norm rewrites signed comparisons of provably non-negative operands into
// unsigned ones (so that loop conditions and bounds checks share terms) and
// decides comparisons by intervals / path-condition membership when possible.
func (in *Interp) norm(c *Term) *Term {
	ts := in.ts
	switch c.Op {
	case OBNot:
		n := in.norm(c.Args[0])
		if n != c.Args[0] {
			return ts.Not(n)
		}
		return c
	case OSlt, OSle:
		a, b := c.Args[0], c.Args[1]
		w := a.Sort.W
		_, ah := in.ival(a)
		_, bh := in.ival(b)
		lim := uint64(1) << uint(w-1)
		if ah < lim && bh < lim {
			if c.Op == OSlt {
				c = ts.Ult(a, b)
			} else {
				c = ts.Ule(a, b)
			}
		}
	}
	switch c.Op {
	case OUlt:
		al, ah := in.ival(c.Args[0])
		bl, bh := in.ival(c.Args[1])
		if ah < bl {
			return ts.Bool(true)
		}
		if al >= bh {
			return ts.Bool(false)
		}
	case OUle:
		al, ah := in.ival(c.Args[0])
		bl, bh := in.ival(c.Args[1])
		if ah <= bl {
			return ts.Bool(true)
		}
		if al > bh {
			return ts.Bool(false)
		}
	}
	if in.pcSet[c.id] {
		return ts.Bool(true)
	}
	if c.Op == OBNot && in.pcSet[c.Args[0].id] {
		return ts.Bool(false)
	}
	if nc := ts.Not(c); in.pcSet[nc.id] {
		return ts.Bool(false)
	}
	// a <u b known, query a <=u b etc.
	if c.Op == OUle {
		if in.pcSet[ts.Ult(c.Args[0], c.Args[1]).id] {
			return ts.Bool(true)
		}
	}
	return c
}

func (in *Interp) setModel(m Model) {
	in.model = m
	in.mcache = map[int]uint64{}
}

// feasible checks pc ∧ t. Returns verdict; on Sat the model becomes current
// only if adopt is true.
func (in *Interp) feasible(t *Term) (Verdict, Model) {
	if t.IsTrue() {
		if in.model != nil {
			return Sat, in.model
		}
	}
	if t.IsFalse() {
		return Unsat, nil
	}
	if in.model != nil {
		if v, ok := in.evalModel(t); ok && v {
			return Sat, in.model
		}
	}
	tq := time.Now()
	v, m := in.check(t, true, in.ts.Vars)
	in.eng.mu.Lock()
	in.eng.forkQueries++
	if in.eng.cfg.Verbose {
		in.eng.notes["q@"+in.posStr()+" "+v.String()]++
		in.eng.notes["ms@"+in.posStr()] += int(time.Since(tq).Milliseconds())
	}
	in.eng.mu.Unlock()
	return v, m
}

// fork chooses one of mutually exclusive alternatives; returns its index.
func (in *Interp) fork(alts []*Term, why string) int {
	// trivial cases
	nonFalse := -1
	cnt := 0
	for i, a := range alts {
		if a.IsTrue() {
			return i
		}
		if !a.IsFalse() {
			nonFalse = i
			cnt++
		}
	}
	if cnt == 0 {
		in.end("infeasible", "no alternative: "+why)
	}
	_ = nonFalse
	return in.forkVal(alts, nil, why)
}

func (in *Interp) forkVal(alts []*Term, vals []uint64, why string) int {
	if in.dpos < len(in.prefix) {
		d := in.prefix[in.dpos]
		in.dpos++
		in.decs = append(in.decs, d)
		in.noteDecision(d.Alt, why)
		c := alts[d.Alt]
		if in.model != nil {
			if v, ok := in.evalModel(c); !(ok && v) {
				in.model = nil
			}
		}
		in.addPC(c)
		return d.Alt
	}
	type fa struct {
		i    int
		m    Model
		v    Verdict
		same bool
	}
	var feas []fa
	for i, a := range alts {
		same := false
		if in.model != nil {
			if v, ok := in.evalModel(a); ok && v {
				same = true
			}
		}
		if same {
			feas = append(feas, fa{i, in.model, Sat, true})
			continue
		}
		v, m := in.feasible(a)
		if v == Unsat {
			continue
		}
		feas = append(feas, fa{i, m, v, false})
	}
	if len(feas) == 0 {
		in.end("infeasible", why)
	}
	for _, f := range feas[1:] {
		np := make([]decision, len(in.decs)+1)
		copy(np, in.decs)
		d := decision{Alt: f.i}
		if vals != nil {
			d.Val = vals[f.i]
		}
		np[len(in.decs)] = d
		in.eng.push(np)
	}
	ch := feas[0]
	d := decision{Alt: ch.i}
	if vals != nil {
		d.Val = vals[ch.i]
	}
	in.decs = append(in.decs, d)
	in.dpos++
	// keep prefix consistent for later decisions
	in.prefix = in.decs
	in.noteDecision(ch.i, why)
	if ch.v == Sat && ch.m != nil {
		if !ch.same {
			in.setModel(ch.m)
		}
	} else {
		in.model = nil
		in.pathNotes = append(in.pathNotes, "fork-unknown-kept")
	}
	in.addPC(alts[ch.i])
	if len(feas) > 1 {
		in.symBranch++
		in.eng.mu.Lock()
		in.eng.branches++
		in.eng.mu.Unlock()
	}
	return ch.i
}

func (in *Interp) noteDecision(alt int, why string) {
	if in.sig.Len() < 4096 {
		fmt.Fprintf(&in.sig, "%s:%d;", why, alt)
	}
}

// branch on a boolean term: returns true/false, forking when both feasible.
func (in *Interp) branch(c *Term, why string) bool {
	c = in.norm(c)
	if c.IsTrue() {
		return true
	}
	if c.IsFalse() {
		return false
	}
	return in.fork([]*Term{c, in.ts.Not(c)}, why) == 0
}

// must: if ¬c is feasible, the current path splits off a panic path.
//
// Run-time checks (index / slice bounds, nil, divide by zero) are decided
// lazily: the check is recorded as pending, execution continues under the
// assumption that it holds, and all pending checks are decided by ONE query
// before the next solver interaction of the path (branch feasibility,
// assertion, concretisation, path end). Only when that query is satisfiable
// are the checks decided one by one, and a failing one is reported as a
// feasible panic with its own model.
type pendingChk struct {
	c     *Term
	msg   string
	pos   string
	stack []string
}

func (in *Interp) must(c *Term, msg string) {
	c = in.norm(c)
	if c.IsTrue() {
		return
	}
	if c.IsFalse() {
		in.flush()
		in.end("panic", msg)
	}
	if in.dpos < len(in.prefix) {
		// replaying a prefix: the parent path has already decided this check
		in.addPC(c)
		return
	}
	in.pending = append(in.pending, pendingChk{c: c, msg: msg, pos: in.posStr(), stack: in.stackStr()})
	in.pcSet[c.id] = true
	in.learn(c)
	if len(in.pending) >= 48 {
		in.flush()
	}
}

// check is the only way the interpreter talks to the solver: pending run-time
// checks are decided first.
func (in *Interp) check(extra *Term, wantModel bool, vars []*Term) (Verdict, Model) {
	in.flush()
	return in.sol.Check(in.ts, extra, wantModel, vars)
}

func (in *Interp) assertRaw(c *Term) {
	in.pcSet[c.id] = true
	in.pc = append(in.pc, c)
	in.sol.Assert(in.ts, c)
}

func (in *Interp) flush() {
	if len(in.pending) == 0 || in.flushing {
		return
	}
	in.flushing = true
	defer func() { in.flushing = false }()
	pend := in.pending
	in.pending = nil
	ts := in.ts
	cs := make([]*Term, len(pend))
	for i, p := range pend {
		cs[i] = p.c
	}
	conj := ts.AndN(cs...)
	if len(pend) > 1 || true {
		v, _ := in.sol.Check(ts, ts.Not(conj), false, nil)
		if v == Unsat {
			for _, p := range pend {
				in.assertRaw(p.c)
			}
			return
		}
	}
	// some check can fail (or undecided): decide them in order
	for _, p := range pend {
		v, m := in.sol.Check(ts, ts.Not(p.c), true, ts.Vars)
		switch v {
		case Sat:
			save, savec := in.model, in.mcache
			in.model = m
			if in.model == nil {
				in.model = Model{}
			}
			in.reportViolationAt("panic", p.msg, p.pos, p.stack)
			in.model, in.mcache = save, savec
			// can execution continue past the check at all?
			v2, m2 := in.sol.Check(ts, p.c, true, ts.Vars)
			if v2 == Unsat {
				in.pending = nil
				panic(pathEnd{Kind: "panic-reported", Msg: p.msg, Pos: p.pos})
			}
			if v2 == Sat {
				in.setModel(m2)
			} else {
				in.model = nil
			}
		case Unknown:
			in.note("runtime-check-undecided")
			in.eng.mu.Lock()
			o := in.obl("runtime check: " + p.msg)
			o.Queries++
			o.Unknown++
			in.eng.mu.Unlock()
			in.model = nil
		}
		in.assertRaw(p.c)
	}
}

func (in *Interp) assume(c *Term, what string) {
	in.assumeX(in.norm(c), what)
}

// assumeX adds a constraint without interval-based simplification (used for
// the range constraints that define the intervals in the first place).
func (in *Interp) assumeX(c *Term, what string) {
	if c.IsTrue() {
		return
	}
	if c.IsFalse() {
		in.end("infeasible", "assume false: "+what)
	}
	if in.model != nil {
		if v, ok := in.evalModel(c); ok && v {
			in.addPC(c)
			return
		}
	}
	if in.dpos < len(in.prefix) {
		// replaying: known feasible overall
		in.model = nil
		in.addPC(c)
		return
	}
	v, m := in.check(c, true, in.ts.Vars)
	switch v {
	case Unsat:
		in.end("infeasible", "assume: "+what)
	case Sat:
		in.setModel(m)
	default:
		in.model = nil
	}
	in.addPC(c)
}

// concretize returns a concrete value for t, forking over feasible values.
func (in *Interp) concretize(t *Term, why string) uint64 {
	if t.IsConst() {
		return t.Val
	}
	for iter := 0; ; iter++ {
		if iter > 4096 {
			in.end("budget", "concretize: too many values for "+why)
		}
		if in.dpos < len(in.prefix) {
			d := in.prefix[in.dpos]
			v := in.ts.Const(t.Sort.W, d.Val)
			alts := []*Term{in.ts.Eq(t, v), in.ts.Not(in.ts.Eq(t, v))}
			k := in.forkVal(alts, []uint64{d.Val, d.Val}, "conc:"+why)
			if k == 0 {
				return d.Val
			}
			continue
		}
		in.ensureModel()
		var cv uint64
		if in.model != nil {
			if v, ok := t.Eval(in.model, in.mcache); ok {
				cv = v
			} else {
				in.unsupported("concretize non-evaluable term: " + why)
			}
		} else {
			in.unsupported("concretize without model: " + why)
		}
		v := in.ts.Const(t.Sort.W, cv)
		alts := []*Term{in.ts.Eq(t, v), in.ts.Not(in.ts.Eq(t, v))}
		k := in.forkVal(alts, []uint64{cv, cv}, "conc:"+why)
		if k == 0 {
			return cv
		}
	}
}

func (in *Interp) ensureModel() {
	if in.model != nil {
		return
	}
	// an undecided (timed-out) query is retried: under load the first attempt of a
	// query that normally takes milliseconds can hit the per-query timeout
	for attempt := 0; attempt < 3; attempt++ {
		v, m := in.check(nil, true, in.ts.Vars)
		if v == Sat {
			in.setModel(m)
			return
		} else if v == Unsat {
			in.end("infeasible", "pc unsat at ensureModel")
		}
	}
}

// ---------------- assertions / violations ----------------

func (in *Interp) vector(m Model) []map[string]interface{} {
	cache := map[int]uint64{}
	var out []map[string]interface{}
	ev := func(t *Term) uint64 {
		if t == nil {
			return 0
		}
		v, _ := t.Eval(m, cache)
		return v
	}
	for _, nd := range in.nondets {
		r := map[string]interface{}{"name": nd.Name, "kind": nd.Kind}
		if nd.Kind == "bytes" {
			l := ev(nd.Len)
			if len(nd.Terms) > 0 && l > uint64(len(nd.Terms)) {
				l = uint64(len(nd.Terms))
			}
			bs := make([]int, len(nd.Terms))
			for i, t := range nd.Terms {
				bs[i] = int(ev(t))
			}
			if nd.LO != nil && len(nd.LO.loCells) > 0 {
				// sparse contents of a length-only buffer: the cells the code actually read
				hi := uint64(0)
				for k := range nd.LO.loCells {
					if k > hi {
						hi = k
					}
				}
				if hi < 1<<16 {
					bs = make([]int, hi+1)
					for k, t := range nd.LO.loCells {
						bs[k] = int(ev(t))
					}
				}
			}
			r["len"] = l
			r["bytes"] = bs
		} else if nd.Kind == "int" {
			r["val"] = fmt.Sprint(int64(ev(nd.Terms[0])))
		} else {
			r["val"] = fmt.Sprint(ev(nd.Terms[0]))
		}
		out = append(out, r)
	}
	return out
}

func (in *Interp) reportViolation(kind, tag, pos string) {
	in.reportViolationAt(kind, tag, pos, in.stackStr())
}

func (in *Interp) reportViolationAt(kind, tag, pos string, stack []string) {
	in.ensureModelNoEnd()
	m := in.model
	if m == nil {
		m = Model{}
	}
	v := Violation{Kind: kind, Tag: tag, Pos: pos, Vector: in.vector(m), PathLen: len(in.decs), Stack: stack}
	if in.eng.cfg.Verbose {
		fmt.Fprintf(os.Stderr, "VIOLATION %s %s @%s\n  decisions=%v\n  sig=%s\n", kind, tag, pos, in.decs, in.sig.String())
		for _, c := range in.pc {
			fmt.Fprintf(os.Stderr, "  pc: %s\n", c.String())
		}
	}
	e := in.eng
	e.mu.Lock()
	key := kind + "|" + tag + "|" + pos
	e.violSeen[key]++
	if e.violSeen[key] <= 3 && len(e.viols) < e.cfg.MaxViol {
		e.viols = append(e.viols, v)
	}
	e.mu.Unlock()
}

func (in *Interp) ensureModelNoEnd() {
	if in.model != nil {
		return
	}
	v, m := in.check(nil, true, in.ts.Vars)
	if v == Sat {
		in.setModel(m)
	}
}

func (in *Interp) obl(tag string) *Obligation {
	o := in.eng.oblig[tag]
	if o == nil {
		o = &Obligation{Tag: tag}
		in.eng.oblig[tag] = o
	}
	return o
}

func (in *Interp) assertTerm(c *Term, tag string, mustFail bool) {
	e := in.eng
	in.flush()
	if !mustFail {
		c = in.norm(c)
	}
	if c.IsTrue() {
		e.mu.Lock()
		in.obl(tag).Trivial++
		e.mu.Unlock()
		return
	}
	nc := in.ts.Not(c)
	var v Verdict
	var m Model
	if c.IsFalse() {
		// the assertion is constant-false on this path: it is a violation only if the
		// path itself is feasible (a branch kept after an undecided feasibility check may
		// be infeasible), so decide the path condition now
		if in.model != nil {
			v, m = Sat, in.model
		} else {
			v, m = in.check(nil, true, in.ts.Vars)
			if v == Sat {
				in.setModel(m)
			} else if v == Unsat {
				in.end("infeasible", "pc unsat at constant-false assertion "+tag)
			}
		}
	} else {
		v, m = in.check(nc, true, in.ts.Vars)
	}
	e.mu.Lock()
	o := in.obl(tag)
	o.Queries++
	switch v {
	case Unsat:
		o.Discharged++
	case Sat:
		o.Sat++
	default:
		o.Unknown++
	}
	if mustFail {
		e.expectFail[tag] = true
		if v == Sat {
			e.mustFailSat[tag]++
			if _, have := e.twinVec[tag]; !have && m != nil {
				// witness of the deliberately false twin: replayed natively by the driver as a
				// translator validation (the native run must fail the twin as well)
				save := in.model
				in.model = m
				e.twinVec[tag] = in.vector(m)
				in.model = save
			}
		}
	}
	e.mu.Unlock()
	if v == Sat && !mustFail {
		save := in.model
		if m == nil {
			m = Model{}
		}
		in.model = m
		in.reportViolation("assert", tag, in.posStr())
		in.model = save
		in.mcache = map[int]uint64{}
	}
	// continue under the assumption that the assertion holds
	if !mustFail {
		if v == Sat || v == Unknown {
			in.assume(c, "after assert "+tag)
		} else {
			in.addPC(c) // valid lemma; helps the solver
		}
	}
}

func (in *Interp) cover(tag string, c *Term) {
	e := in.eng
	e.mu.Lock()
	e.coverDecl[tag] = true
	already := e.covers[tag] > 0
	e.mu.Unlock()
	if already && !c.IsTrue() {
		return
	}
	hit := false
	if c.IsTrue() {
		hit = true
	} else if !c.IsFalse() {
		v, _ := in.feasible(c)
		hit = v == Sat
	}
	if hit {
		e.mu.Lock()
		e.covers[tag]++
		e.mu.Unlock()
	}
}

// ---------------- misc helpers ----------------

func (in *Interp) note(s string) {
	in.pathNotes = append(in.pathNotes, s)
}

func sortedKeys(m map[string]int) []string {
	var ks []string
	for k := range m {
		ks = append(ks, k)
	}
	sort.Strings(ks)
	return ks
}

var _ = types.Typ
