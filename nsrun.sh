#!/bin/bash
# usage: nsrun.sh <cmd...>  -- runs the command in a private network namespace resembling the default one
exec unshare -n bash -c '
ip link set lo up
ip link add eth0 type veth peer name eth0p
ip link set eth0 multicast on
ip addr add 192.0.2.2/24 dev eth0
ip link set eth0 up
ip link set eth0p multicast off
sysctl -qw net.ipv6.conf.eth0p.disable_ipv6=1 2>/dev/null
ip link set eth0p up
ip route add default via 192.0.2.1 dev eth0
exec "$@"' bash "$@"
