# Table of checks: property -> runs. Each run = one engine process over one
# package with one harness directory and several entry functions.

def R(name, pkg, harness, entries, flags=None, params=None, tiers=("quick", "thorough"), **kw):
    d = {"name": name, "pkg": pkg, "harness": harness, "entries": entries, "flags": flags or {}, "params": params or {}, "tiers": list(tiers)}
    d.update(kw)
    return d

PROPS = {}

# ---------------------------------------------------------------- C16
PROPS["C16"] = {
    "runs": [
        R("ring-size%d" % s, "pkg/ringbuffer", "pkg/ringbuffer", ["ZzC16Push", "ZzC16Pull", "ZzC16Close"],
          flags={"allow": "blocked", "workers": 6}, params={"SIZE": s},
          tiers=("quick", "thorough") if s <= 8 else ("thorough",))
        for s in (1, 2, 4, 8, 16, 32)
    ] + [
        R("ring-new", "pkg/ringbuffer", "pkg/ringbuffer", ["ZzC16New"], flags={"workers": 4}),
    ],
    "parallel": 4,
    "assumptions": [
        "sync.Mutex / sync.Cond contracts are the trusted base: every RingBuffer operation is one mutex-protected critical section (checked: lock state tracked on every path), so any concurrent history is an interleaving of the atomic steps verified here",
        "pushed items are non-nil (slot occupancy is the full/empty test)",
    ],
    "outside_claim": [
        "executions of real goroutines under the Go scheduler; Close racing Start (unsynchronised running flag); Reset",
        "capacities above the registered SIZE values",
    ],
}
