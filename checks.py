# Table of checks: property -> runs. Each run = one engine process over one
# package with one harness directory and several entry functions.

def R(name, pkg, harness, entries, flags=None, params=None, tiers=("quick", "thorough"), **kw):
    d = {"name": name, "pkg": pkg, "harness": harness, "entries": entries, "flags": flags or {}, "params": params or {}, "tiers": list(tiers)}
    d.update(kw)
    return d

PROPS = {}

# ---------------------------------------------------------------- C16
PROPS["C16"] = {
    "level_text": "One-step refinement of a bounded FIFO: from every RingBuffer state satisfying the representation invariant (all read positions, all fill levels, closed or not, arbitrary item values; capacities 1..8 quick, ..32 thorough) one real Push / Pull / Close is executed symbolically and the post-state, return values, lock release and wake-up are compared with the reference queue. Because each operation is a single mutex-protected critical section (checked on every path), the step result covers operation histories of any length; real goroutine schedules are not explored.",
    "level_note": "Trusted: sync.Mutex/sync.Cond contracts (modelled sequentially, lock state tracked), the engine's SSA semantics (validated by native replay of counterexamples and must-fail twins). Not covered: real scheduler interleavings, Close racing Start, Reset, asyncprocessor goroutine.",
    "runs": [
        R("ring-size%d" % s, "pkg/ringbuffer", "pkg/ringbuffer", ["ZzC16Push", "ZzC16Pull", "ZzC16Close"],
          flags={"allow": "blocked", "workers": 6}, params={"SIZE": s},
          tiers=("quick", "thorough") if s <= 8 else ("thorough",))
        for s in (1, 2, 4, 8, 16, 32)
    ] + [
        R("ring-new", "pkg/ringbuffer", "pkg/ringbuffer", ["ZzC16New"], flags={"workers": 4}),
    ],
    "parallel": 4,
    "assumptions": [
        "sync.Mutex / sync.Cond contracts are the trusted base: every RingBuffer operation is one mutex-protected critical section (checked: lock state tracked on every path), so any concurrent history is an interleaving of the atomic steps verified here",
        "pushed items are non-nil (slot occupancy is the full/empty test)",
    ],
    "outside_claim": [
        "executions of real goroutines under the Go scheduler; Close racing Start (unsynchronised running flag); Reset",
        "capacities above the registered SIZE values",
    ],
}

CODECS_GEN = [
    # (pkg, Name, has C07, has C08Ind)
    ("rtph264", "H264"), ("rtph265", "H265"), ("rtpav1", "AV1"), ("rtpvp8", "VP8"), ("rtpvp9", "VP9"),
    ("rtpfragmented", "Fragmented"), ("rtpklv", "KLV"),
]

def codec_runs(prefix, suffix="", quick=None, thorough=None, extra_entries=None, flags=None):
    runs = []
    for pkg, name in CODECS_GEN:
        ents = [prefix + name + suffix] + (extra_entries or {}).get(pkg, [])
        runs.append(R(pkg[3:], "pkg/format/" + pkg, "pkg/format/" + pkg, ents, flags=dict(flags or {}),
                      quick_params=(quick or {}).get(pkg, (quick or {}).get("*", {})),
                      thorough_params=(thorough or {}).get(pkg, (thorough or {}).get("*", {}))))
    return runs

PROPS["C03"] = {
    "claimed": False, "level_text": "tbd", "level_note": "tbd",
    "runs": codec_runs("ZzC03", quick={"*": {"K": 1}}, thorough={"*": {"K": 2}}),
}
PROPS["C06"] = {
    "claimed": False, "level_text": "tbd", "level_note": "tbd",
    "runs": codec_runs("ZzC06", quick={"*": {"K": 1}}, thorough={"*": {"K": 2}}),
}
PROPS["C07"] = {
    "claimed": False, "level_text": "tbd", "level_note": "tbd",
    "runs": codec_runs("ZzC07", quick={"*": {"P": 5}}, thorough={"*": {}}),
}
PROPS["C08"] = {
    "claimed": False, "level_text": "tbd", "level_note": "tbd",
    "runs": codec_runs("ZzC08", "Hist", extra_entries={"rtpklv": ["ZzC08KLVInd"], "rtpfragmented": ["ZzC08FragmentedInd"]}),
}

NOT_APPLICABLE = {
    "C11": "process-level liveness, timeouts and resource release over goroutines, channels, select, sockets and timers: none of it is executable by a sequential SSA-to-SMT encoder at useful bounds (DESIGN.md §7)",
    "C12": "every API call returning within its timeout, Close leaving no goroutine or socket: scheduling and I/O facts of a 2500-line channel-driven run loop (DESIGN.md §7)",
    "C13": "quantifies over schedules and crash points of real goroutines; no sequential kernel says anything about bounded-time Close or leaked goroutines (DESIGN.md §7)",
}
for _p in ["C01","C02","C03","C04","C05","C06","C07","C08","C09","C10","C14","C15","C17","C18","C19","C20"]:
    NOT_APPLICABLE.setdefault(_p, "check under construction in this session (planned in DESIGN.md §6); not claimed until it runs clean")
