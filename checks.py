# Table of checks: property -> runs. Each run = one engine process over one
# package with one harness directory and several entry functions.

def R(name, pkg, harness, entries, flags=None, params=None, tiers=("quick", "thorough"), **kw):
    d = {"name": name, "pkg": pkg, "harness": harness, "entries": entries, "flags": flags or {}, "params": params or {}, "tiers": list(tiers)}
    d.update(kw)
    return d

PROPS = {}

# ---------------------------------------------------------------- C16
PROPS["C16"] = {
    "level_text": 'One-step refinement of a bounded FIFO: from every RingBuffer state satisfying the representation invariant (all read positions, all fill levels, closed or not, arbitrary item values; capacities 1..8 quick, ..32 thorough) one real Push / Pull / Close / Reset is executed symbolically and the post-state, return values, lock release and wake-up are compared with the reference queue. Because each operation is a single mutex-protected critical section (checked on every path), the step result covers operation histories of any length. Consumer loop (asyncprocessor.Processor.run, executed sequentially over the real ring, capacities 1,2,4 / 8): callbacks run once each in acceptance order up to the first that fails or closes the queue, nothing runs afterwards, the error is reported exactly once and before the consumer is marked finished (the channel Close waits on), refusal exactly at capacity, nothing is handed out after Close. Real goroutine schedules are not explored.',
    "level_note": "Trusted: sync.Mutex/sync.Cond contracts (modelled sequentially, lock state tracked), the engine's SSA semantics (validated by native replay of counterexamples and must-fail twins). Not covered: real scheduler interleavings, Close racing Start.",
    "runs": [
        R("ring-size%d" % s, "pkg/ringbuffer", "pkg/ringbuffer", ["ZzC16Push", "ZzC16Pull", "ZzC16Close", "ZzC16Reset", "ZzC16Wake"],
          flags={"allow": "blocked", "workers": 6}, params={"SIZE": s},
          tiers=("quick", "thorough") if s <= 8 else ("thorough",))
        for s in (1, 2, 4, 8, 16, 32)
    ] + [
        R("ring-new", "pkg/ringbuffer", "pkg/ringbuffer", ["ZzC16New"], flags={"workers": 4}),
    ] + [
        R("processor-size%d" % s, "internal/asyncprocessor", "internal/asyncprocessor", ["ZzC16Processor"], flags={"allow": "blocked", "workers": 4}, params={"SIZE": s},
          tiers=("quick", "thorough") if s <= 4 else ("thorough",))
        for s in (1, 2, 4, 8)
    ],
    "parallel": 4,
    "assumptions": [
        "sync.Mutex / sync.Cond contracts are the trusted base: every RingBuffer operation is one mutex-protected critical section (checked: lock state tracked on every path), so any concurrent history is an interleaving of the atomic steps verified here",
        "pushed items are non-nil (slot occupancy is the full/empty test)",
    ],
    "outside_claim": [
        "executions of real goroutines under the Go scheduler; Close racing Start (unsynchronised running flag)",
        "capacities above the registered SIZE values",
    ],
}

CODECS_GEN = [
    # (pkg, Name, has C07, has C08Ind)
    ("rtph264", "H264"), ("rtph265", "H265"), ("rtpav1", "AV1"), ("rtpvp8", "VP8"), ("rtpvp9", "VP9"),
    ("rtpfragmented", "Fragmented"), ("rtpklv", "KLV"),
]
CODECS_SLOW = [("rtpmpeg1video", "MPEG1Video")]

def ST(pkg):
    """overlay of the state-dependent harness file (names unexported decoder fields)"""
    return {"pkg/format/" + pkg: "pkg/format/" + pkg + "/state"}

def codec_runs(prefix, suffix="", quick=None, thorough=None, extra_entries=None, flags=None, state=False):
    runs = []
    for pkg, name in CODECS_GEN:
        ents = [prefix + name + suffix] + (extra_entries or {}).get(pkg, [])
        fb = [prefix + name + "HistAPI"] if (state and suffix == "Hist" and pkg != "rtpklv") else None
        runs.append(R(pkg[3:], "pkg/format/" + pkg, "pkg/format/" + pkg, ents, flags=dict(flags or {}), extras=ST(pkg) if state else {}, fallback=fb,
                      quick_params=(quick or {}).get(pkg, (quick or {}).get("*", {})),
                      thorough_params=(thorough or {}).get(pkg, (thorough or {}).get("*", {}))))
    return runs

PROPS["C03"] = {
    "level_text": "Round trip decode(encode(frame)) == frame on the real encoder+decoder pairs of H264, H265, AV1, VP8, VP9, fragmented (MPEG-4 video/LATM), KLV, MPEG-1 video (1-2 slices), MPEG-4 audio (SizeLength/IndexLength/IndexDeltaLength (13,3,3), (6,2,2) and the unequal (6,0,2), (6,2,0)), MPEG-1 audio and AC-3 (frame lengths fixed by the real header parsers; fragmented, single and aggregated regimes), M-JPEG (baseline JPEG with symbolic tables in any two of the slots 0..3, dimensions, sampling type and entropy data; the rebuilt image has the same dimensions, type, tables and data), LPCM, simple audio, MPEG-TS: frame contents fully symbolic, unit lengths symbolic 1..P (P 8-16; audio frames 48-140 bytes), 1-3 units (6 for the AU-header layouts), payload limit case-split over its whole small range, initial sequence number symbolic (wrap inside a frame included), K=1 (quick) / 2 (thorough) consecutive frames; 'more packets needed' before the completing packet and exact equality at it.",
    "level_note": 'Preconditions (valid frames) are written in the harnesses and listed in the evidence (e.g. no start code inside NALUs, VP9 header parsable, audio header accepted by the codec library with the declared length). Outside: the default MTU 1450 for the round trip (only the small-limit regime; thresholds are relative to the limit so every aggregation/fragmentation boundary is crossed; C06 covers sizes at the default limit), M-JPEG restart intervals and more than two tables, P/N/K beyond the registered values.',
    "runs": codec_runs("ZzC03", quick={"*": {"K": 1}, "rtpav1": {"K": 1, "N": 3, "P": 8}},
                       thorough={"*": {"K": 2, "P": 7, "MHI": 7}, "rtpav1": {"K": 1, "N": 3, "P": 10}, "rtpvp9": {"K": 2, "P": 14, "MHI": 14}, "rtpklv": {"K": 2, "P": 22, "MHI": 20}}),
}
PROPS["C06"] = {
    "level_text": 'For every encoder listed under C03: payload <= PayloadMaxSize (limit symbolic over its small range), sequence numbers +1 modulo 2^16 from a symbolic initial value across K calls (so wraps inside a fragmented frame are covered), SSRC/payload type/version, marker placement, inputs never written (engine write monitor + native copy compare). In addition, for H264, H265, AV1, VP8, VP9 and fragmented: the DEFAULT limit (PayloadMaxSize unset => 1450) with 1..3 units of 1..4500 bytes carried by length-only buffers (lengths symbolic and exact), so every single/aggregated/fragmented threshold around the real default is crossed.',
    "level_note": 'Same bounds and exclusions as C03; smallest workable limits are per codec (H264 3, H265 4, AV1 3, VP8 2, VP9 12) and stated as MLO in the bounds. Outside: default-limit instances for the audio / KLV / MPEG-1 video encoders (their packetisation depends on frame contents).',
    "runs": codec_runs("ZzC06", quick={"*": {"K": 1}}, thorough={"*": {"K": 2, "P": 7, "MHI": 7}, "rtpvp9": {"K": 2, "P": 14, "MHI": 14}}),
}
_M4A = [
    R("mpeg4audio-%d-%d-%d" % cfg, "pkg/format/rtpmpeg4audio", "pkg/format/rtpmpeg4audio", ["ZzC03C06MPEG4Audio"],
      params={"SL": cfg[0], "IL": cfg[1], "IDL": cfg[2]}, quick_params={"K": 1, "P": 10}, thorough_params={"K": 2, "P": 10, "N": 3},
      tiers=("quick", "thorough") if cfg == (13, 3, 3) else ("thorough",))
    for cfg in [(13, 3, 3), (6, 2, 2)]
] + [
    # index-length and index-delta-length differ (an fmtp line may give only one of them)
    R("mpeg4audio-6-0-2", "pkg/format/rtpmpeg4audio", "pkg/format/rtpmpeg4audio", ["ZzC03C06MPEG4Audio"], params={"SL": 6, "IL": 0, "IDL": 2, "K": 1, "P": 4, "N": 3, "MLO": 8, "MHI": 12}),
    R("mpeg4audio-6-2-0", "pkg/format/rtpmpeg4audio", "pkg/format/rtpmpeg4audio", ["ZzC03C06MPEG4Audio"], params={"SL": 6, "IL": 2, "IDL": 0, "K": 1, "P": 2, "N": 6, "MLO": 14, "MHI": 18}),
]
_MISC = [
    R("lpcm-%d-%d" % (d, c), "pkg/format/rtplpcm", "pkg/format/rtplpcm", ["ZzC03C06LPCM"], params={"DEPTH": d, "CH": c},
      quick_params={"K": 1, "P": 24}, thorough_params={"K": 2, "P": 24},
      tiers=("quick", "thorough") if (d, c) in [(16, 2), (24, 1)] else ("thorough",))
    for d in (8, 16, 24) for c in (1, 2)
] + [
    R("simpleaudio", "pkg/format/rtpsimpleaudio", "pkg/format/rtpsimpleaudio", ["ZzC03C06SimpleAudio"]),
    R("mpegts", "pkg/format/rtpmpegts", "pkg/format/rtpmpegts", ["ZzC03C06MPEGTS"], quick_params={"N": 3, "K": 1}, thorough_params={"N": 4, "K": 1, "MHI": 800}),
]
# MPEG-1 audio / AC-3: groups of audio frames whose lengths are fixed by the
# codec header tables; three regimes each (fragmented / exactly one packet / aggregated)
_AUD = [
    R("mpeg1audio-frag", "pkg/format/rtpmpeg1audio", "pkg/format/rtpmpeg1audio", ["ZzC03C06MPEG1Audio"], params={"N": 1, "P": 60, "MLO": 30, "MHI": 32, "COV1": 0},
      thorough_params={"MLO": 24, "MHI": 36, "K": 2}),
    R("mpeg1audio-single", "pkg/format/rtpmpeg1audio", "pkg/format/rtpmpeg1audio", ["ZzC03C06MPEG1Audio"], params={"N": 1, "P": 53, "MLO": 51, "MHI": 54},
      thorough_params={"MLO": 50, "MHI": 58}),
    R("mpeg1audio-agg", "pkg/format/rtpmpeg1audio", "pkg/format/rtpmpeg1audio", ["ZzC03C06MPEG1Audio"], params={"N": 2, "P": 49, "MLO": 100, "MHI": 101},
      thorough_params={"MLO": 98, "MHI": 103}),
    R("mpeg1audio-batches", "pkg/format/rtpmpeg1audio", "pkg/format/rtpmpeg1audio", ["ZzC03C06MPEG1Audio"], params={"N": 3, "P": 53, "MLO": 97, "MHI": 98, "COV1": 0},
      thorough_params={"MLO": 96, "MHI": 101}),  # a flush followed by a batch of two frames
    R("ac3-frag", "pkg/format/rtpac3", "pkg/format/rtpac3", ["ZzC03C06AC3"], params={"N": 1, "P": 140, "MLO": 36, "MHI": 37, "COV1": 0},
      thorough_params={"MLO": 20, "MHI": 44}),  # 36: a 128-byte frame is an exact multiple of the fragment size
    R("ac3-single", "pkg/format/rtpac3", "pkg/format/rtpac3", ["ZzC03C06AC3"], params={"N": 1, "P": 130, "MLO": 129, "MHI": 132},
      thorough_params={"P": 140, "MLO": 128, "MHI": 144}),
    R("ac3-agg", "pkg/format/rtpac3", "pkg/format/rtpac3", ["ZzC03C06AC3"], params={"N": 2, "P": 128, "MLO": 257, "MHI": 259}),
]
_M1V_Q = {"K": 1, "N": 2, "P": 8, "MLO": 6, "MHI": 9}
_M1V_T = {"K": 2, "N": 2, "P": 8, "MLO": 6, "MHI": 13}
_MJ = [R("mjpeg", "pkg/format/rtpmjpeg", "pkg/format/rtpmjpeg", ["ZzC03C06MJPEG"], quick_params={"K": 1, "P": 8, "MLO": 142, "MHI": 146, "NSLOTS": 6},
         thorough_params={"K": 2, "P": 8, "MLO": 142, "MHI": 150, "NSLOTS": 6})]
PROPS["C03"]["runs"] += _MJ
PROPS["C06"]["runs"] += _MJ
PROPS["C03"]["runs"] += _M4A + _MISC + _AUD + [
    R("mpeg1video", "pkg/format/rtpmpeg1video", "pkg/format/rtpmpeg1video", ["ZzC03MPEG1Video"], quick_params=_M1V_Q, thorough_params=_M1V_T)]
PROPS["C06"]["runs"] += [
    R(pkg[3:] + "-default-limit", "pkg/format/" + pkg, "pkg/format/" + pkg, ["ZzC06" + name + "Default"], params={"LMIN": 2 if pkg == "rtph265" else 1},
      quick_params={"N": 3, "L": 4500}, thorough_params={"N": 3, "L": 6000})
    for pkg, name in CODECS_GEN if pkg != "rtpklv"
]
PROPS["C06"]["runs"] += _M4A + _MISC + _AUD + [
    R("mpeg1video", "pkg/format/rtpmpeg1video", "pkg/format/rtpmpeg1video", ["ZzC06MPEG1Video"], quick_params=_M1V_Q, thorough_params=_M1V_T)]
PROPS["C07"] = {
    "level_text": "Inductive resynchronisation: from an ARBITRARY decoder pre-state (all internal fields symbolic within a small shape, constrained only by the accounting invariant; for H264/H265/AV1 also with the number of buffered units at or just below the documented maximum, as left by lost marker packets) an intact frame A then an intact frame B are fed; B must come back intact exactly once at its completing packet (H264: no later than the first packet of the following frame) with only 'more packets needed' before, and the invariant must be re-established. Any loss/duplication/reordering history leaves the decoder in some such state, so one verdict covers fault sequences of every length. H264, H265, AV1, VP8, VP9, fragmented, KLV, MPEG-1 video, MPEG-1 audio, AC-3, MPEG-4 audio, M-JPEG.",
    "level_note": "Trusted: the representation invariant of each decoder (Appendix A of DESIGN.md); pre-state shapes are small (<=2 pending fragments of <=3 bytes, <=1 buffered unit or a near-maximum count of one-byte units). These harnesses name unexported fields: after a refactoring of a decoder's internals they are inconclusive (exit 2) and only the public-API checks of C03/C08 remain. Outside: explicit drop/dup/swap enumeration (covered through the inductive state).",
    "runs": codec_runs("ZzC07", state=True, quick={"*": {"P": 5}, "rtpvp9": {"P": 14, "MHI": 13}, "rtpklv": {"P": 20, "MHI": 18}}, thorough={"*": {}}),
}
for _r in PROPS["C07"]["runs"]:
    if _r["name"] in ("h264", "h265", "av1"):
        _r["params"]["NBUF"] = 1  # 0 or 1 buffered unit here; counts at the documented maximum in the -nearcap runs
PROPS["C07"]["runs"] += [
    R(c + "-nearcap", "pkg/format/rtp" + c, "pkg/format/rtp" + c, ["ZzC07" + c.upper()], params={"NBUFLO": 2, "NBUF": 3}, extras=ST("rtp" + c),
      quick_params={"P": 3}, thorough_params={"P": 5})
    for c in ("h264", "h265", "av1")
] + [
    R("mjpeg", "pkg/format/rtpmjpeg", "pkg/format/rtpmjpeg", ["ZzC07MJPEG"], extras=ST("rtpmjpeg"), quick_params={"P": 6, "NSLOTS": 2}, thorough_params={"P": 8, "NSLOTS": 6}),
    R("mpeg1video", "pkg/format/rtpmpeg1video", "pkg/format/rtpmpeg1video", ["ZzC07MPEG1Video"], extras=ST("rtpmpeg1video"), quick_params={"N": 1, "P": 8, "MLO": 5, "MHI": 8}, thorough_params={"N": 1, "P": 10, "MLO": 5, "MHI": 12}),
    R("mpeg1audio", "pkg/format/rtpmpeg1audio", "pkg/format/rtpmpeg1audio", ["ZzC07MPEG1Audio"], extras=ST("rtpmpeg1audio"), params={"N": 1, "P": 53, "MLO": 30, "MHI": 31, "COV1": 0},
      thorough_params={"MLO": 28, "MHI": 33}),
    R("ac3", "pkg/format/rtpac3", "pkg/format/rtpac3", ["ZzC07AC3"], extras=ST("rtpac3"), params={"N": 1, "P": 130, "MLO": 40, "MHI": 41, "COV1": 0}, thorough_params={"MLO": 38, "MHI": 43}),
    R("mpeg4audio", "pkg/format/rtpmpeg4audio", "pkg/format/rtpmpeg4audio", ["ZzC07MPEG4Audio"], params={"SL": 13, "IL": 3, "IDL": 3},
      quick_params={"P": 5, "MHI": 8}, thorough_params={"P": 6, "MHI": 10}),
]
PROPS["C08"] = {
    "level_text": 'Hostile packets: K arbitrary packets (payload 0..P fully symbolic, any header) from Init through the real decoders: no panic, no loop beyond the unwinding bound, returned frames within the documented maximum, returned buffers never written by later calls (write monitor + native compare), accounting invariant after every call - all 15 decoders (MPEG-4 audio over the SizeLength/IndexLength values the SDP layer admits) plus the PTSEqualsDTS helpers; one inductive step at the REAL size caps with length-only buffers (VP8, VP9, AV1, fragmented, KLV, MPEG-1 video), whose reads are memoised so that counterexamples replay natively; retained bytes of the M-JPEG decoder after any number of completed images with different headers (engine primitive zzRetained: lengths of all byte slices reachable from the decoder, maps included) stay within the tables of one image; unit-COUNT cap for H264/H265: an aggregation packet with a unit count around the documented maximum on the marker path and on the timestamp-split path.',
    "level_note": 'Outside: inductive size-cap step for H264/H265 (solver timeouts on length-only data, dropped rather than weakened); M-JPEG beyond K=2, P=14; heap measured as reachable slice lengths.',
    "runs": codec_runs("ZzC08", "Hist", state=True, quick={"*": {}, "rtpvp9": {"K": 2, "P": 5}, "rtpav1": {"K": 2, "P": 7}}, thorough={"*": {"K": 3}, "rtpvp9": {"K": 2, "P": 8}, "rtpav1": {"K": 2, "P": 9}},
                       extra_entries={"rtpklv": ["ZzC08KLVInd"], "rtpfragmented": ["ZzC08FragmentedInd"], "rtpvp8": ["ZzC08VP8Ind"],
                                      "rtpvp9": ["ZzC08VP9Ind"], "rtpav1": ["ZzC08AV1Ind"]})
    + [R("mpeg1video", "pkg/format/rtpmpeg1video", "pkg/format/rtpmpeg1video", ["ZzC08MPEG1VideoHist", "ZzC08MPEG1VideoInd"], flags={"allow": "unwind"}, extras=ST("rtpmpeg1video"))],
}

# ---------------------------------------------------------------- C09
PROPS["C09"] = {
    "level_text": "MIKEY: totality on every byte string <= 24 (quick) / 32 (thorough) bytes and marshal/unmarshal idempotence on the accepted set; value-level round trip of every well-formed message (0-2 crypto sessions, up to 2-3 payloads of the four kinds, KEMAC with 1-2 key-data sub-payloads with/without SPI, SP with 0-2 parameters) and purity of Marshal. RTP-Info (1-2 entries, optional seq / rtptime from value spreads plus every value < 100), WWW-Authenticate and Authorization (Basic and Digest, symbolic quoted fields incl. separators, optional opaque/stale/algorithm), KeyMgmt text wrapper: marshal->unmarshal identity and purity. Session and Transport headers: marshal->unmarshal identity over the header's grammar (ports 0..65535 one at a time, SSRC all 32 bits, TTL/interleaved 8 bits, all profile/protocol/delivery/mode combinations). Parsing determinism (same value or the SAME failure) of Transport, Range, KeyMgmt, WWW-Authenticate, Authorization, Session and RTP-Info under every map iteration order (engine option -mapperm), on inputs of 2-3 tokens where several faults can coexist. Range NPT: millisecond-resolution times round-trip exactly (exact FP for ms <= 255/2047, ideal-arithmetic for ms <= 2^30). Session totality on all strings <= 8/10 bytes.",
    "level_note": "Trusted: strconv.FormatFloat/ParseFloat('f',-1,64) round-trips float64 exactly (stdlib contract, stubbed as an opaque inverse pair). Outside: UTC ranges, quoted fields longer than 1-2 bytes, fully symbolic 16/32-bit decimal fields in RTP-Info, session timeout > 99999 (decimal conversion of wide numbers is beyond the solvers), two fully symbolic ports at once.",
    "runs": [
        R("mikey-total", "pkg/mikey", "pkg/mikey", ["ZzC09MikeyTotal"], flags={"concoff": True}, quick_params={"P": 24}, thorough_params={"P": 32}),
        R("mikey-rt", "pkg/mikey", "pkg/mikey", ["ZzC09MikeyRT"], flags={"concoff": True}, params={"NP": 2, "RICHAT": 0}),
        R("mikey-rt-richlast", "pkg/mikey", "pkg/mikey", ["ZzC09MikeyRT"], flags={"concoff": True}, params={"NP": 2, "RICHAT": 1}, tiers=("thorough",)),
        R("mikey-rt-3", "pkg/mikey", "pkg/mikey", ["ZzC09MikeyRT"], flags={"concoff": True}, params={"NP": 3, "RICHAT": 1}, tiers=("thorough",)),
        R("rtp-info-seq", "pkg/headers", "pkg/headers", ["ZzC09RTPInfoRT"], flags={"concoff": True, "qtimeout": 60000}, params={"SYM": 0},
          quick_params={"N": 1, "SMALL": 99}, thorough_params={"N": 2, "SMALL": 99}),
        R("rtp-info-time", "pkg/headers", "pkg/headers", ["ZzC09RTPInfoRT"], flags={"concoff": True, "qtimeout": 60000}, params={"SYM": 1},
          quick_params={"N": 1, "SMALL": 99}, thorough_params={"N": 1, "SMALL": 999}),
        R("authenticate", "pkg/headers", "pkg/headers", ["ZzC09AuthenticateRT"], flags={"concoff": True, "qtimeout": 60000}, quick_params={"L": 1}, thorough_params={"L": 2}),
        R("authorization", "pkg/headers", "pkg/headers", ["ZzC09AuthorizationRT"], flags={"concoff": True, "qtimeout": 60000}, params={"L": 1}),
        R("keymgmt", "pkg/headers", "pkg/headers", ["ZzC09KeyMgmtRT"], flags={"concoff": True, "qtimeout": 60000}, quick_params={"L": 1}, thorough_params={"L": 2}),
        R("session", "pkg/headers", "pkg/headers", ["ZzC09SessionRT", "ZzC09SessionTotal"], flags={"concoff": True, "qtimeout": 120000}, quick_params={"P": 8}, thorough_params={"P": 10}),
        R("transport-rt-combos", "pkg/headers", "pkg/headers", ["ZzC09TransportRT"], flags={"concoff": True, "qtimeout": 60000}, params={"FIELD": -1}),
    ] + [
        R("transport-rt-field%d%s" % (f, sfx), "pkg/headers", "pkg/headers", ["ZzC09TransportRT"], flags={"concoff": True, "qtimeout": 60000}, params=dict({"FIELD": f}, **extra),
          tiers=tiers)
        for (f, sfx, extra, tiers) in [
            (0, "", {"PORTQ": 65535}, ("quick", "thorough")), (0, "-swap", {"PORTQ": 0, "PSWAP": 1}, ("thorough",)),
            (1, "", {"PORTQ": 1}, ("thorough",)), (2, "", {"PORTQ": 65535, "PSWAP": 1}, ("thorough",)),
            (3, "", {}, ("thorough",)), (4, "", {}, ("quick", "thorough")), (5, "", {}, ("quick", "thorough"))]
    ] + [
        R("npt-exact", "pkg/headers", "pkg/headers", ["ZzC09RangeNPT"], flags={"qtimeout": 600000, "workers": 2}, quick_params={"KMAX": 255}, thorough_params={"KMAX": 2047}),
        R("npt-ideal", "pkg/headers", "pkg/headers", ["ZzC09RangeNPT"], flags={"solver": "cvc5-int", "fpreal": True, "qtimeout": 300000, "workers": 2}, params={"KMAX": 1 << 30}),
        R("smpte", "pkg/headers", "pkg/headers", ["ZzC09RangeSMPTE"], flags={"concoff": True}, quick_params={"NSEC": 3, "FMAX": 12}, thorough_params={"NSEC": 8, "FMAX": 30}),
        R("smpte-header", "pkg/headers", "pkg/headers", ["ZzC09RangeSMPTEHeader"], flags={"concoff": True}, quick_params={"NSEC": 1, "FMAX": 2}, thorough_params={"NSEC": 1, "FMAX": 10}),
        R("determinism", "pkg/headers", "pkg/headers", ["ZzC09TransportDeterministic", "ZzC09RangeDeterministic"], flags={"mapperm": True},
          quick_params={"NTOK": 2}, thorough_params={"NTOK": 3}, replay_repeat=400),
    ] + [
        R("determinism-hdr%d" % h, "pkg/headers", "pkg/headers", ["ZzC09HeadersDeterministic"], flags={"mapperm": True, "workers": 4}, params={"HDR": h},
          quick_params={"NTOK": 2}, thorough_params={"NTOK": 3}, replay_repeat=400)
        for h in range(5)
    ],
}

PROPS["C08"]["runs"] += [
    R("h264-count", "pkg/format/rtph264", "pkg/format/rtph264", ["ZzC08H264Count"]),
    R("h265-count", "pkg/format/rtph265", "pkg/format/rtph265", ["ZzC08H265Count"]),
    R("mpeg1audio-hostile", "pkg/format/rtpmpeg1audio", "pkg/format/rtpmpeg1audio", ["ZzC08MPEG1AudioHist"], extras=ST("rtpmpeg1audio"), quick_params={"K": 1, "P": 60}, thorough_params={"K": 2, "P": 60}),
    R("ac3-hostile", "pkg/format/rtpac3", "pkg/format/rtpac3", ["ZzC08AC3Hist"], extras=ST("rtpac3"), quick_params={"K": 1, "P": 136}, thorough_params={"K": 2, "P": 136}),
    R("mjpeg-retained", "pkg/format/rtpmjpeg", "pkg/format/rtpmjpeg", ["ZzC08MJPEGRetained"], extras=ST("rtpmjpeg"), quick_params={"K": 3}, thorough_params={"K": 6}),
    R("mjpeg-hostile", "pkg/format/rtpmjpeg", "pkg/format/rtpmjpeg", ["ZzC08MJPEGHist"], extras=ST("rtpmjpeg"), quick_params={"K": 1, "P": 14}, thorough_params={"K": 2, "P": 14}),
    R("ptsequalsdts", "pkg/format", "pkg/format", ["ZzC08PTSEqualsDTS"], quick_params={"P": 12}, thorough_params={"P": 24}),
    R("lpcm-hostile", "pkg/format/rtplpcm", "pkg/format/rtplpcm", ["ZzC08LPCM"]),
    R("simpleaudio-hostile", "pkg/format/rtpsimpleaudio", "pkg/format/rtpsimpleaudio", ["ZzC08SimpleAudio"]),
    R("mpegts-hostile", "pkg/format/rtpmpegts", "pkg/format/rtpmpegts", ["ZzC08MPEGTS"]),
]
PROPS["C08"]["runs"] += [
    R("mpeg4audio-hostile-%d-%d-%d" % cfg, "pkg/format/rtpmpeg4audio", "pkg/format/rtpmpeg4audio", ["ZzC08MPEG4AudioHist"],
      params={"SL": cfg[0], "IL": cfg[1], "IDL": cfg[2]}, quick_params={"K": 1, "P": 12}, thorough_params={"K": 2, "P": 8},
      tiers=("quick", "thorough") if cfg in [(13, 3, 3), (64, 0, 0)] else ("thorough",))
    for cfg in [(13, 3, 3), (6, 2, 2), (64, 0, 0), (63, 1, 1), (32, 0, 0), (100, 0, 0), (1, 1, 1)]
]

# ---------------------------------------------------------------- root package kernels
_EXTRAS = {"pkg/ringbuffer": "extra/ringbuffer", "internal/asyncprocessor": "extra/asyncprocessor"}
PROPS["C17"] = {
    "level_text": 'No cryptography. (1) Transport admission: isTransportSupported / pickFirstSupportedTransport agree with the reference rule (no secure profile without TLS, no plain UDP with TLS, no UDP through tunnels, multicast/UDP listener presence) for every combination of profile, protocol, delivery, TLS, listeners, multicast range and tunnel kind. (2) Key management: contextToMikey -> mikeyToContext on the real code: master key and salt (30 symbolic bytes), MKI present/absent, 1..3 distinct SSRCs of which any prefix carries roll-over state: key, MKI, SSRC order and roll-over counters arrive unchanged, an SSRC without state is announced with counter 0; a message whose security policy deviates in ONE of the six mandatory parameters (missing, or any other value) is refused by mikeyToContext.',
    "level_note": 'Trusted: pion/srtp Context reduced to its SetROC/ROC table (cipher and HMAC not modelled), ntp.Encode/Decode replaced by the inverse-pair contract proved under C15, consecutive clock readings at most 60 s apart. Outside: all cryptography (AES-CM/HMAC: decrypt = inverse of encrypt, tamper rejection, no clear text on the wire), redirect downgrade check, which contexts the session plumbing hands to which writer.',
    "runs": [R("admission", ".", "root", ["ZzC17Admission"], params={"GOSTUB": 1}, extras=_EXTRAS),
             R("mikey-context", ".", "root", ["ZzC17MikeyContext"], params={"GOSTUB": 1, "NTPSTUB": 1, "NOWDRIFT": 60}, extras=_EXTRAS,
               quick_params={"NSSRC": 3}, thorough_params={"NSSRC": 4})],
}
_EXTRAS = {"pkg/ringbuffer": "extra/ringbuffer", "internal/asyncprocessor": "extra/asyncprocessor"}
PROPS["C18"] = {
    "level_text": 'Start-up validation for ALL 64-bit values of WriteQueueSize and MaxPacketSize (client - for every transport the application may request: unset, UDP, multicast, TCP - and server); every RTP write entry point (client, server session, server stream with fan-out) with MaxPacketSize and packet sizes symbolic (CSRC list, payload, padding through either pion field) and RTCP (client, server session, server stream media and the multicast writer - plain, SRTP, SRTP with MKI; receiver reports with 0..n reception reports and 0/4/8 bytes of profile extensions): refused => error and nothing queued, accepted => exactly one buffer <= MaxPacketSize whose length is the real marshalled size, exact boundary both ways; SRTP/SRTCP sizes with and without MKI (client, server session, server stream, multicast writer) through the real size arithmetic and a length model of pion/srtp.',
    "level_note": 'Trusted: pion/srtp output length = input + 10 (+4 SRTCP index) + len(MKI), contents unconstrained; goroutines/timers not executed (GOSTUB). Outside: interleaved frame buffer sizing (tcpBuffer), what the kernel does.',
    "runs": [
        R("start-validation", ".", "root", ["ZzC18ServerStart", "ZzC18ClientStart"], params={"GOSTUB": 1}, extras=_EXTRAS),
        R("write-paths", ".", "root", ["ZzC18ClientWriteRTP", "ZzC18StreamWriteRTP", "ZzC18SessionWriteRTP", "ZzC18WriteRTCP"], params={"GOSTUB": 1}, extras=_EXTRAS,
          quick_params={"P": 12, "MAXPS": 36}, thorough_params={"P": 40, "MAXPS": 80, "NREP": 8}),
        R("srtp-sizes", ".", "root", ["ZzC18ClientSRTPSizes"], params={"GOSTUB": 1, "MKI": 0}, extras=_EXTRAS),
        R("srtp-sizes-mki", ".", "root", ["ZzC18ClientSRTPSizes"], params={"GOSTUB": 1, "MKI": 1}, extras=_EXTRAS),
        R("srtp-sizes-server", ".", "root", ["ZzC18ServerSRTPSizes"], params={"GOSTUB": 1, "MKI": 0}, extras=_EXTRAS),
        R("srtp-sizes-server-mki", ".", "root", ["ZzC18ServerSRTPSizes"], params={"GOSTUB": 1, "MKI": 1}, extras=_EXTRAS),
    ] + [
        R("multicast-write-srtp%d" % m, ".", "root", ["ZzC18MulticastWrite"], params={"GOSTUB": 1, "SRTP": m}, extras=_EXTRAS)
        for m in (0, 1, 2)
    ] + [
    ],
}
PROPS["C01"] = {
    "level_text": "Kernels of the data path on the real objects, no sockets. WRITE side: an arbitrary RTP packet (all header fields, 0-2 CSRC, payload 0..P symbolic, padding through either pion field) written through the real clientFormat / serverSessionFormat / serverStreamFormat.writePacketRTP on a minimal object graph (real asyncprocessor + ring buffer, capturing sink): the bytes queued parse back (pion) to the same payload, marker, timestamp, sequence number and payload type with SSRC = the format's announced local SSRC; every active unicast reader of a stream gets the packet exactly once; refused writes reach nobody. RECEIVE side over UDP (client and server session): K datagrams with arbitrary sequence numbers within a quarter of the sequence space (gaps, reordering, duplicates) and symbolic payloads through the real listener loop with its receive-buffer replacement policy, payload-type demultiplexing, fastRTPUnmarshal and the real reorder buffer: every delivered packet carries the payload sent with its sequence number (also after being parked while later datagrams were read), no sequence number delivered twice. fastRTPUnmarshal agrees with pion's Packet.Unmarshal on every byte string <= P. Interleaved transport: every frame / response / request is handed to the connection in ONE Write (two writers share it) and sequences of them are read back intact (conn.Conn); media identity: the control attributes handed out by DESCRIBE resolve to the media they describe (so packets reach the callback of the media that was set up).",
    "level_note": "Not covered (stated in DESIGN.md §6/§7): goroutine schedules, sockets, TLS/tunnels (WebSocket/HTTP carriers use gorilla and real connections), UDP loss in the kernel, readers joining/leaving, ordering across packets on the write side (delegated to C16's FIFO step), SRTP contents, interleaved-frame demultiplexing by channel. Trusted: engine semantics, pion/rtp Unmarshal as the reference reader.",
    "runs": [
        R("write-paths", ".", "root", ["ZzC18ClientWriteRTP", "ZzC18StreamWriteRTP", "ZzC18SessionWriteRTP"], params={"GOSTUB": 1}, extras=_EXTRAS,
          quick_params={"P": 12, "MAXPS": 36}, thorough_params={"P": 40, "MAXPS": 80, "NR": 3}),
        R("udp-receive", ".", "root", ["ZzC01ClientUDPReceive"], params={"GOSTUB": 1}, extras=_EXTRAS, quick_params={"K": 4, "B": 4}, thorough_params={"K": 5, "B": 4, "P": 3}),
        R("udp-receive-server", ".", "root", ["ZzC01ServerUDPReceive"], params={"GOSTUB": 1}, extras=_EXTRAS, quick_params={"K": 4, "B": 4}, thorough_params={"K": 5, "B": 4, "P": 3}),
        R("conn-elements", "pkg/conn", "pkg/conn", ["ZzC04ConnSequence"], flags={"concoff": True}, params={"MLO": 5, "MHI": 5}, quick_params={"N": 2}, thorough_params={"N": 3}),
        R("describe-control", ".", "root", ["ZzC20DescribeControl"], params={"GOSTUB": 1}, extras=_EXTRAS, quick_params={"N": 3}, thorough_params={"N": 5}),
        R("fast-unmarshal", ".", "root", ["ZzC01FastUnmarshal"], params={"GOSTUB": 1}, extras=_EXTRAS, flags={"concoff": True},
          quick_params={"P": 20}, thorough_params={"P": 28}),
    ],
}
PROPS["C19"] = {
    "level_text": 'UDP source filters on the real listener loops with a harness PacketConn: server: callback runs iff the source (IPv4 / IPv4-mapped / IPv6, all bytes and port symbolic) equals the registered address; client: IP and port filter, any-port latching of the first accepted port and enforcement afterwards (two datagrams), timeout clock untouched by rejected datagrams. Interleaved session pinned to its connection: in every session state and for every method a request arriving on another connection is refused with an error and leaves the state untouched (handleRequestInner). Author address: the REAL Server.runInner find-or-create event (sequential channel model) hands a session to a connection iff the connection IP address (4 or 16 symbolic bytes, IPv4-mapped forms identified) and zone equal those of the connection that created it; a foreign connection gets ErrServerCannotUseSessionCreatedByOtherIP and the session is not touched.',
    "level_note": 'Outside: real sockets; what the connection does with the refusal (covered by the test suite).',
    "runs": [
        R("udp-filters", ".", "root", ["ZzC19ServerUDPFilter", "ZzC19ClientUDPFilter"], params={"GOSTUB": 1}, extras=_EXTRAS),
        R("pinned-connection", ".", "root", ["ZzC02StateGuard"], params={"GOSTUB": 1}, extras=_EXTRAS, flags={"concoff": True}),
        R("server-loop", ".", "root", ["ZzC19ServerLoop"], params={"GOSTUB": 1, "CHANMODEL": 1}, extras=_EXTRAS),
    ],
}
PROPS["C20"] = {
    "level_text": "Server-side URL analysis is the inverse of the documented client join: for symbolic path (1..6/10 bytes, any byte but a trailing '/'), symbolic query (0..6/10 bytes) and track 0..9, plus template paths containing trackID= look-alike segments with and without a query, getPathAndQueryAndTrackID / findMediaByTrackID / getPathAndQuery return exactly path, query and track for the FFmpeg and GStreamer layouts. DESCRIBE/SETUP agreement: for streams of 1..3 (5) medias with any subset of back channels, requested or not, every control attribute handed out by descForDescribe resolves through findMediaByTrackID to the media its entry describes. Client/server pair through the real code on both sides: stream URL (path of 1-2 segments of symbolic URL-safe bytes, optionally a trackID= look-alike segment, query absent or symbolic) -> real net/url parse -> Content-Base -> real description.Media.URL -> real getPathAndQueryAndTrackID / getPathAndQuery: same path, query and track. Base URL choice: the same pair with the base URL taken by the real findBaseURL from an absolute, a relative or an absent Content-Base. Client-side join rule: description.Media.URL on relative control attributes of 1-2 (3) symbolic URL-safe bytes incl. '/' and '?' anywhere, against four base shapes, equals base + control with a '/' inserted exactly when the documented rule says so. Record side (ANNOUNCE then SETUP): stream URL whose path is made of 1-2 segments of ANY characters legal in a URL path (letters, digits, unreserved marks, sub-delimiters !$&'()*+,;= and ':') with or without a query -> real net/url parse -> getPathAndQuery(announce) -> client numbering trackID=i -> real description.Media.URL -> URL as text -> real findMediaByURL: the SETUP reaches the media it was issued for and the ANNOUNCE handler saw the stream's path and query. Credentials: a request whose URL carries symbolic user-info marshals to the same bytes as without it, for all ten methods.",
    "level_note": 'Outside: percent-escapes and characters that need escaping, IPv6 / hostname variety of the authority, absolute / query-style / leading-slash control attributes of third-party cameras, an at-sign in paths (credential pre-filter of base.ParseURL is a regexp), session-level control attributes.',
    "runs": [R("split", ".", "root", ["ZzC20Split", "ZzC20SplitLookalike"], params={"GOSTUB": 1}, extras=_EXTRAS, quick_params={"PL": 6, "QL": 6}, thorough_params={"PL": 10, "QL": 10}),
             R("client-server-pair", ".", "root", ["ZzC20ClientServerPair"], params={"GOSTUB": 1}, extras=_EXTRAS, flags={"concoff": True}, quick_params={"PL": 2, "QL": 2}, thorough_params={"PL": 3, "QL": 3}),
             R("client-server-pair-lookalike", ".", "root", ["ZzC20ClientServerPair"], params={"GOSTUB": 1, "LOOK": 1}, extras=_EXTRAS, flags={"concoff": True}, quick_params={"PL": 1, "QL": 1}, thorough_params={"PL": 2, "QL": 2}),
             R("find-base-url", ".", "root", ["ZzC20FindBaseURL"], params={"GOSTUB": 1}, extras=_EXTRAS, flags={"concoff": True}, quick_params={"PL": 2, "QL": 2}, thorough_params={"PL": 3, "QL": 3}),
             R("no-credentials", ".", "root", ["ZzC20NoCredentials"], params={"GOSTUB": 1}, extras=_EXTRAS, flags={"concoff": True}),
             R("media-url-join", "pkg/description", "pkg/description", ["ZzC20MediaURLJoin"], flags={"concoff": True}, quick_params={"CL": 2}, thorough_params={"CL": 3}),
             R("describe-control", ".", "root", ["ZzC20DescribeControl"], params={"GOSTUB": 1}, extras=_EXTRAS, quick_params={"N": 3}, thorough_params={"N": 5}),
             R("record-setup", ".", "root", ["ZzC20RecordSetup"], params={"GOSTUB": 1}, extras=_EXTRAS, flags={"concoff": True}, quick_params={"PL": 1, "QL": 1}, thorough_params={"PL": 2, "QL": 2})],
}

# ---------------------------------------------------------------- C04
PROPS["C04"] = {
    "level_text": 'Interleaved frames: two frames (channel 0..255, payload symbolic) through real MarshalTo, a chunking reader with every chunk size (P<=1 quick, <=2 thorough) or byte-wise chunks (P 12/40), and real bufio + Unmarshal: same channel and payload. Text messages: a request (defined methods, URL with path and query, CSeq, header with symbolic value, symbolic body) followed by a frame, and a response followed by a request, through real Marshal, a reader that cuts the stream at EVERY position into two reads (bufio 4096) or delivers it byte by byte (bufio 4096, the size conn.Conn uses), and real Unmarshal: same method/status, URL, headers, body, then the following element intact. conn.Conn.Read dispatch: sequences of 2 (3) elements of any kind (request with any of the ten methods / response / frame), optionally after a stray byte, come back as the same kinds with the same contents under byte-wise delivery (and every two-way cut, thorough). Body limit: Content-Length values around the 128 KiB maximum, around 2^32, 2^63 and 2^64, negative and malformed: refused with an error, never a panic. Header entry limit: 254..257 lines with distinct keys or one repeated key: refused exactly beyond 255. readBytesLimited: never consumes past the limit, fails iff no delimiter within it. base64 stream reader: two padded blocks under every chunking decode to the concatenation. Elements already returned stay intact: after a response has been read, a LONGER request is read through the same bufio.Reader (one delivery per element) and the response body and header values are compared again (no aliasing of the reader buffer).',
    "level_note": 'Outside: key/value/URL/method/body length limits at their real constants, WebSocket carrier (gorilla), more than two reads per message (only every two-way cut and the all-single-bytes delivery), URLs other than the fixed one, payloads longer than the bounds.',
    "runs": [
        R("frames-allchunks", "pkg/base", "pkg/base", ["ZzC04Frames"], flags={"concoff": True}, quick_params={"P": 1}, thorough_params={"P": 2}),
        R("frames-bytewise", "pkg/base", "pkg/base", ["ZzC04Frames"], flags={"concoff": True}, quick_params={"P": 12, "CHUNK1": 1}, thorough_params={"P": 16, "CHUNK1": 1}),
        R("request-split", "pkg/base", "pkg/base", ["ZzC04Request"], flags={"concoff": True}, quick_params={"MLO": 7, "MHI": 7, "HL": 2, "BL": 1}, thorough_params={"HL": 2, "BL": 2}),
        R("request-bytewise", "pkg/base", "pkg/base", ["ZzC04Request"], flags={"concoff": True}, params={"SPLIT": 0, "BUFSZ": 4096}, quick_params={"MLO": 1, "MHI": 1, "HL": 1, "BL": 1}, thorough_params={"HL": 2, "BL": 2}),
        R("response-split", "pkg/base", "pkg/base", ["ZzC04Response"], flags={"concoff": True}, quick_params={"HL": 1, "BL": 1}, thorough_params={"HL": 2, "BL": 2}),
        R("response-then-longer-element", "pkg/base", "pkg/base", ["ZzC04Response"], flags={"concoff": True}, params={"LONGFOLLOW": 1, "BUFSZ": 4096}, quick_params={"HL": 2, "BL": 2}, thorough_params={"HL": 2, "BL": 3}),
        R("response-bytewise", "pkg/base", "pkg/base", ["ZzC04Response"], flags={"concoff": True}, params={"SPLIT": 0, "BUFSZ": 4096}, quick_params={"HL": 2, "BL": 1}, thorough_params={"HL": 2, "BL": 2}),
        R("header-limit", "pkg/base", "pkg/base", ["ZzC04HeaderLimit"], flags={"concoff": True, "unwind": 2000}),
        R("body-limit", "pkg/base", "pkg/base", ["ZzC04BodyLimit"], flags={"concoff": True, "maxalloc": 140000}),
        R("conn-dispatch", "pkg/conn", "pkg/conn", ["ZzC04ConnSequence"], flags={"concoff": True}, quick_params={"N": 2}, thorough_params={"N": 3, "MLO": 1, "MHI": 2}),
        R("conn-allcuts", "pkg/conn", "pkg/conn", ["ZzC04ConnSequence"], flags={"concoff": True}, params={"SPLIT": 1, "MLO": 7, "MHI": 7}, quick_params={"N": 2}, thorough_params={"N": 3}, tiers=("thorough",)),
        R("read-limited", "pkg/base", "pkg/base", ["ZzC04ReadLimited"], flags={"concoff": True}, quick_params={"P": 6}, thorough_params={"P": 8}),
        R("base64-stream", "internal/base64streamreader", "internal/base64streamreader", ["ZzC04Base64Stream"], flags={"concoff": True}, quick_params={"P": 2}, thorough_params={"P": 3}),
    ],
    "parallel": 2,
}

# ---------------------------------------------------------------- C10
PROPS["C10"] = {
    "parallel": 4,
    "level_text": "Basic and Digest (MD5, SHA-256) on the real Sender -> Authorization.Marshal -> Unmarshal -> Verify chain with the server's own WWW-Authenticate challenge: symbolic user, password (printable, including ':'), realm and nonce (1-2 bytes each); request URLs with a path, without any path, with a query but no path, with a query and trailing slash. Completeness (right credentials accepted) and soundness (a different password / user / realm / nonce / method, ANY other (user, password) pair for Basic, or a scheme that is not enabled, is rejected); scheme admission for an arbitrary header kind against an arbitrary enabled set. URL soundness: a correctly signed digest whose URI is a tail / prefix / other resource / base-URL form on a non-SETUP method is rejected, the request URL, its exact request-URI and the SETUP base-URL forms are accepted (17-row table x 3 methods, symbolic password). Nonce: a challenge never replaces the nonce already issued on the connection, and credentials for a never-issued (empty) nonce are not accepted. 401 vs end of connection on the real ServerConn.handleRequestOuter / handleAuthError: an application-reported authentication failure on a request without credentials (no / unparsable / empty-user Authorization) gives 401 with one challenge per enabled method and keeps the connection; with credentials (Basic or Digest, user non-empty) the connection ends. Digest hashes are uninterpreted functions assumed collision-free (pairwise axioms over the applications on the path); crypto/subtle.ConstantTimeCompare by its functional contract.",
    "level_note": "Trusted: MD5/SHA-256 collision freedom (the cryptographic assumption). Outside: symbolic URLs (request URLs and candidate digest URIs come from tables), the client's single retry, field lengths above the registered bounds.",
    "runs": [
        R("basic", "pkg/auth", "pkg/auth", ["ZzC10Basic"], flags={"concoff": True}, quick_params={"UL": 2, "PL": 3}, thorough_params={"UL": 3, "PL": 4}),
    ] + [
        # one run per request-URL shape (0: with a path, 1: authority only, 2: query without path, 3: query and trailing slash)
        R("digest-md5-url%d" % u, "pkg/auth", "pkg/auth", ["ZzC10Digest"], flags={"concoff": True, "qtimeout": 30000, "unwind": 200, "workers": 4},
          params={"URLLO": u, "NURL": u + 1}, quick_params={"UL": 2, "PL": 2, "RL": 1, "NL": 1}, thorough_params={"UL": 2, "PL": 2, "RL": 2, "NL": 2})
        for u in range(4)
    ] + [
        R("digest-sha256-url%d" % u, "pkg/auth", "pkg/auth", ["ZzC10Digest"], flags={"concoff": True, "qtimeout": 30000, "unwind": 200, "workers": 4},
          params={"URLLO": u, "NURL": u + 1}, quick_params={"SHA256": 1, "UL": 1, "PL": 1, "RL": 1, "NL": 1}, thorough_params={"SHA256": 1, "UL": 1, "PL": 1, "RL": 1, "NL": 1},
          tiers=("quick", "thorough") if u in (0, 1) else ("thorough",))
        for u in range(4)
    ] + [
        R("admission", "pkg/auth", "pkg/auth", ["ZzC10Admission"], flags={"concoff": True, "qtimeout": 120000, "unwind": 200}),
        R("url-match", "pkg/auth", "pkg/auth", ["ZzC10URLMatch"], flags={"concoff": True, "qtimeout": 30000, "unwind": 200}),
        R("nonce-issued", ".", "root", ["ZzC10NonceIssued"], params={"GOSTUB": 1}, extras={"pkg/ringbuffer": "extra/ringbuffer", "internal/asyncprocessor": "extra/asyncprocessor"}, flags={"concoff": True, "qtimeout": 60000, "unwind": 200}),
        R("auth-error", ".", "root", ["ZzC10AuthError"], params={"GOSTUB": 1}, extras={"pkg/ringbuffer": "extra/ringbuffer", "internal/asyncprocessor": "extra/asyncprocessor"}, flags={"concoff": True, "qtimeout": 60000}),
    ],
}

# ---------------------------------------------------------------- C05 (struct level)
PROPS["C05"] = {
    "level_text": "Struct-level round trip only: a Media is marshalled by the real Media.Marshal into pion's MediaDescription and parsed back by the real Media.Unmarshal / format.Unmarshal into an equal value. (1) media-level attributes symbolic: id 0-2 alphanumerics, back-channel flag, profile, control; (2) one format of each of 20 kinds (Opus, LPCM depth x rate x channels, G711 dynamic/static, VP8/VP9/AV1 optional ints, MPEG-TS, G722, G726, Speex, AC-3, KLV, MPEG-1 audio/video, M-JPEG, H264 without parameter sets, static LPCM, Vorbis with a configuration blob, Generic with 2- and 3-field rtpmap) with the dynamic payload type symbolic over 96..127; (3) two formats in one media, a dynamic payload type (all of 96..127) next to a static one (9, 10, 11, 0), so that payload types that are decimal prefixes of each other are covered: every format comes back with its own type, payload type, clock/channel parameters and optional fields.",
    "level_note": "Outside: the SDP TEXT layer (pion/sdp marshalling and the 750-line sdpunmarshaler string state machine: path-explosive for the interpreter), Session-level attributes and FEC groups, formats whose parameters are codec configuration blobs (H264/H265/MPEG-4 parameter sets), MIKEY key-mgmt attribute, totality of parsing on arbitrary SDP text, sample rates outside {8000,16000,32000,44100,48000}, optional integers above 9 (99 for VP8 max-fr).",
    "runs": [
        R("media-attrs", "pkg/description", "pkg/description", ["ZzC05MediaRT"], flags={"concoff": True}, params={"FMT": 5}),
    ] + [
        R("media-fmt%d" % f, "pkg/description", "pkg/description", ["ZzC05MediaRT"], flags={"concoff": True, "workers": 5}, params={"FMT": f, "MEDIAFIX": 1},
          tiers=("quick", "thorough") if f not in (10, 11) else ("thorough",))
        for f in range(21)
    ] + [
        R("media-pair-%d-%d" % (a, b), "pkg/description", "pkg/description", ["ZzC05MediaRT"], flags={"concoff": True, "workers": 5}, params={"FMT": a, "FMT2": b, "MEDIAFIX": 1})
        for (a, b) in [(0, 17), (0, 6), (2, 17), (19, 17), (19, 6), (3, 4), (17, 0)]
    ],
    "parallel": 3,
}

# ---------------------------------------------------------------- C12 (sequential kernel only) / C02 kernels
PROPS["C12"] = {
    "level_text": "Sequential kernels only. (1) The read callbacks installed by the real clientMedia.initialize for every combination of client state (play / record), media direction (normal / back channel) and transport (interleaved / UDP) accept arbitrary RTP bytes (incl. a valid header for the media's payload type) and any receiver report without panicking. (2) description.Media.URL (the client's control-attribute resolution, executed with the real net/url code) on a control attribute made of a fixed prefix/suffix and 1..2 (quick) / 3 (thorough) fully symbolic bytes never returns (nil, nil) and never panics, so the client always has either a URL for SETUP or an error to report.",
    "level_note": "Everything else of C12 (API calls returning within timeouts, Close leaving nothing behind, behaviour under dropped/delayed responses, the 2500-line run loop) is scheduling and I/O and is NOT covered; regexp matching is done natively on concrete subjects and, for the symbolic control attribute, by the literal pre-filter (no '@' => no match, holes exclude '@').",
    "runs": [R("media-url", "pkg/description", "pkg/description", ["ZzC12MediaURL"], flags={"concoff": True}, quick_params={"HL": 2}, thorough_params={"HL": 3}),
             R("media-url-any", "pkg/description", "pkg/description", ["ZzC12MediaURLAny"], flags={"concoff": True}, quick_params={"CL": 2}, thorough_params={"CL": 4}),
             R("media-frames", ".", "root", ["ZzC12ClientMediaFrames"], params={"GOSTUB": 1}, extras={"pkg/ringbuffer": "extra/ringbuffer", "internal/asyncprocessor": "extra/asyncprocessor"},
               quick_params={"P": 13}, thorough_params={"P": 16})],
}
PROPS["C02"] = {
    "level_text": "Sequential kernels on the real code: (1) ServerSession.handleRequestInner state guard: for every session state and every state-changing method the request is refused with ErrServerInvalidState (status >= 400, state untouched, application not called) exactly when (method, state) is outside the RFC 2326 table written in the harness; a request refused by validation or by the application leaves the state unchanged; a request from another connection than the pinned one is refused in every state. (2) ServerConn.handleRequestOuter: exactly one response is written per request for all eleven methods, with the request's CSeq echoed (symbolic value), 400 without CSeq. (3) UDP liveness: every UDP entry point of a session media (RTP/RTCP while recording, RTP/RTCP while playing) refreshes the session's last-packet time for arbitrary RTP bytes / any receiver report, so a peer that keeps sending media or reports is not expired by the UDP timeout check. (4) Session lifetime decisions of the REAL run loop ServerSession.runInner (select over channels executed with the engine's sequential channel model), ONE event from an arbitrary state (state x transport x one or two attached connections x pinned or not; idle/read timeouts 1..100 s, silence 0..300 s on either path, all symbolic): an accepted TEARDOWN ends the session, unpairs the connection and is answered 200; a TEARDOWN refused because it arrives on another connection than the pinned one does NOT end it; any other request gets exactly one answer, keeps the session, carries the session id and counts as a keep-alive; the last connection going away ends the session unless it is streaming over UDP or multicast; the liveness check expires a recording session iff no packet for the read timeout and a playing one iff neither a request nor a packet for the idle timeout (one second of clock granularity allowed), and re-arms itself otherwise; a writer error ends it with that error. (5) Server.runInner, one event: a close request removes and cancels a registered session once, a stale one is ignored; an unknown session id is refused and creates nothing.",
    "level_note": "Outside: request sequences (only one step from each constructed state), successful SETUP/PLAY/RECORD transitions through the stream/UDP plumbing, the hand-over of a request from the connection's goroutine to the session's (two goroutines: a rendezvous cannot be executed sequentially - S113), the timers themselves (the run-loop kernels start from 'the timer fired'), histories of more than one event per loop, OnSessionClose ordering in ServerSession.run. Goroutines are not executed (GOSTUB); channels are FIFO queues in a sequential model where a blocked operation ends the path (CHANMODEL) and the harness context ends the loop after one event.",
    "runs": [R("state-guard", ".", "root", ["ZzC02StateGuard", "ZzC02HandlerRefuses", "ZzC02OneResponse"], params={"GOSTUB": 1}, extras=_EXTRAS, flags={"concoff": True}),
             R("udp-keepalive", ".", "root", ["ZzC02UDPKeepAlive"], params={"GOSTUB": 1}, extras=_EXTRAS),
             R("session-loop", ".", "root", ["ZzC02SessionLoop"], params={"GOSTUB": 1, "CHANMODEL": 1}, extras=_EXTRAS),
             R("server-loop", ".", "root", ["ZzC19ServerLoop"], params={"GOSTUB": 1, "CHANMODEL": 1}, extras=_EXTRAS)],
}

# ---------------------------------------------------------------- C14
PROPS["C14"] = {
    "level_text": "One inductive step of the real reorder buffer (ProcessPacket2 / reorder) from EVERY pre-state satisfying the representation invariant: last delivered sequence number, packet sequence number and all counters are free 16/64-bit variables (so every wrap position is covered at once), every occupancy pattern of the buffer and every restart-counter value is explored, for buffer sizes 1,2,4 (quick) and 8 (thorough). The post-state and the returned packets are compared with a reference receiver written in the harness: strictly increasing delivery modulo 2^16, no duplicates, displaced packets inside the window are buffered not dropped, lost = skipped sequence numbers, counters, cycle counting, restart after B+1 old packets, invariant re-established. Because the invariant is inductive, the step result covers arrival histories of any length. A history harness through the public API only (K = 4/5 arbitrary packets within a quarter of the sequence space, B >= K so that no restart triggers, and reliable mode): strictly increasing delivery, no duplicates, losses = skipped numbers, Stats agree - it keeps working when the receiver's internals are refactored. Reliable mode and the receiver-report assembly (extended highest sequence number, 24-bit clamp, fraction) are separate obligations over all 16/32/64-bit values.",
    "level_note": "Trusted: the engine's SSA semantics (native replay of every counterexample, must-fail twins), the representation invariant written in the harness (a too-weak invariant shows up as a counterexample that does not replay through the public API). Not covered: jitter (floating point, not in the property), the RTCP ticker goroutine, buffer sizes above 8.",
    "runs": [
        R("reorder-B%d" % b, "pkg/rtpreceiver", "pkg/rtpreceiver", ["ZzC14Step"], params={"B": b}, flags={"workers": 8},
          tiers=("quick", "thorough") if b <= 4 else ("thorough",)) for b in (1, 2, 4, 8)
    ] + [R("reliable+report", "pkg/rtpreceiver", "pkg/rtpreceiver", ["ZzC14Reliable", "ZzC14Report"], flags={"workers": 4}),
         R("history-unreliable", "pkg/rtpreceiver", "pkg/rtpreceiver", ["ZzC14Hist"], params={"GOSTUB": 1}, flags={"workers": 6}, quick_params={"K": 4, "B": 4}, thorough_params={"K": 5, "B": 8}),
         R("history-reliable", "pkg/rtpreceiver", "pkg/rtpreceiver", ["ZzC14Hist"], params={"GOSTUB": 1, "RELIABLE": 1}, flags={"workers": 4}, quick_params={"K": 3}, thorough_params={"K": 4})],
    "parallel": 3,
    "assumptions": ["counters below 2^62 (no 64-bit counter overflow within a session)"],
    "outside_claim": ["jitter computation", "report ticker goroutine", "buffer sizes > 8", "multi-step histories are covered through the inductive invariant, not enumerated"],
}

# ---------------------------------------------------------------- C15
_RATES = [8000, 16000, 44100, 48000, 90000]
PROPS["C15"] = {
    "level_text": 'Pure arithmetic obligations on the real code: (1) globalDecoderTrackData.decode is the 64-bit continuation of the 32-bit RTP timestamp for K=4 (quick) / 8 (thorough) arbitrary steps |step|<2^31 from any start; (2) multiplyAndDivide(v,m,d) equals floor(v*m/d) by its 128-bit defining property for all 0<=v<2^62 whose result fits int63, for every pair of clock rates in use and 10^9; (3) GlobalDecoder.Decode places a later track at startPTS*rate/leadRate+elapsed*rate/1e9 (all instants; every leading-track step < 2^31 for 90000->48000, a fixed step for the other rate pairs; also with a non-reference packet of the leading track in between); (4) ntp.Decode(ntp.Encode(t)) is within 1 ns of t for every nanosecond of NTP era 0 after 1970; (5) Receiver.packetNTPUnsafe adds exactly trunc(delta*1e9/rate) for every signed 32-bit delta with no 64-bit overflow; (6) Receiver: after any sequence of sender reports (clock stepping in either direction, reliable or not) the mapping is anchored to the last report; (7) rtpsender: after any series of packets flagged PTS==DTS or not, the sender report pairs the RTP timestamp and the absolute time of one and the same (the last flagged) packet, with exact packet/octet counts (clock frozen, so no extrapolation term). Multiplication/division kernels are decided by cvc5 with the bit-vector-as-integer encoding; floating point by the ideal-arithmetic over-approximation (fpreal.go).',
    "level_note": "Trusted: IEEE-754 round-to-nearest error bound 2^-53 per operation for normal non-overflowing results (the float64 abstraction), contract-level model of time.Time.Add/Sub on wall-clock instants (exact within |d|<2^62, |sec difference|<2^33), cvc5 1.0.3's integer encoding. Not covered: arbitrary clock rates outside the listed set, rtpsender.Sender.report's float64->uint32 conversion (implementation-defined when out of range), NTP era roll-over in 2036.",
    "runs": [
        R("continuation", "pkg/rtptime", "pkg/rtptime", ["ZzC15Continuation"], flags={"workers": 2}, quick_params={"K": 4}, thorough_params={"K": 8}),
    ] + [
        R("muldiv-%d-%d" % (m, d), "pkg/rtptime", "pkg/rtptime", ["ZzC15MulDiv"], params=dict({"M": m, "D": d}, **({"NOTWIN": 1} if (m, d) in [(44100, 1000000000), (48000, 1000000000)] else {})),
          flags={"solver": "cvc5-int", "workers": 1, "qtimeout": 120000},
          tiers=("quick", "thorough") if (m, d) in [(90000, 1000000000), (48000, 90000), (90000, 48000), (8000, 1000000000), (44100, 90000)] else ("thorough",))
        for m in _RATES for d in _RATES + [1000000000] if m != d
    ] + [
        R("latertrack-%d-%d" % (a, b), "pkg/rtptime", "pkg/rtptime", ["ZzC15LaterTrack"], params=dict({"R1": a, "R2": b}, **({} if (a, b) == (90000, 48000) else {"FIXDELTA": 1})),
          flags={"solver": "cvc5-int", "workers": 2, "qtimeout": 120000},
          tiers=("quick", "thorough") if (a, b) == (90000, 48000) else ("thorough",))
        for (a, b) in [(90000, 48000), (48000, 90000), (90000, 8000), (44100, 90000)]
    ] + [
        # with a packet of the leading track whose PTS differs from its DTS in between: it must not become the reference point
        R("latertrack-bframe-%d-%d-%s" % (a, b, sv), "pkg/rtptime", "pkg/rtptime", ["ZzC15LaterTrack"], params={"R1": a, "R2": b, "BFRAME": 1},
          flags={"solver": sv, "workers": 2, "qtimeout": 60000 if sv == "cvc5-int" else 20000}, portfolio="latertrack-bframe-%d-%d" % (a, b),
          tiers=("quick", "thorough") if (a, b) == (90000, 48000) else ("thorough",))
        for (a, b) in [(90000, 48000), (90000, 8000)] for sv in ("cvc5-int", "z3-new")
    ] + [
        R("report-sequence", "pkg/rtpreceiver", "pkg/rtpreceiver", ["ZzC15ReportSequence"], quick_params={"K": 2}, thorough_params={"K": 3}),
        R("sender-report", "pkg/rtpsender", "pkg/rtpsender", ["ZzC15SenderReport"], quick_params={"K": 3}, thorough_params={"K": 5}),
        R("ntp-roundtrip", "pkg/ntp", "pkg/ntp", ["ZzC15NTPRoundTrip"], flags={"solver": "cvc5-int", "fpreal": True, "workers": 2, "qtimeout": 300000}),
    ] + [
        R("packetntp-%d" % r, "pkg/rtpreceiver", "pkg/rtpreceiver", ["ZzC15PacketNTP"], params={"RATE": r},
          flags={"solver": "cvc5-int", "workers": 2, "qtimeout": 120000},
          tiers=("quick", "thorough") if r in (90000, 8000) else ("thorough",))
        for r in _RATES
    ] + [
        R("packetntp-sign-%d" % r, "pkg/rtpreceiver", "pkg/rtpreceiver", ["ZzC15PacketNTPSign"], params={"RATE": r}, flags={"workers": 2, "qtimeout": 60000},
          tiers=("quick", "thorough") if r in (90000, 8000) else ("thorough",))
        for r in _RATES
    ],
    "parallel": 6,
    "assumptions": ["float64 operations: |result - exact| <= M*2^-53 with M a sound magnitude bound (IEEE-754 RNE, normal range)",
                    "time.Time.Add/Sub on wall-clock instants modelled by their defining linear constraint"],
    "outside_claim": ["clock rates outside {8000,16000,44100,48000,90000}", "Sender.report float->uint32 conversion", "instants after 2036-02-07 (NTP era 1)", "interleavings of packets and sender reports under real goroutines"],
}

NOT_APPLICABLE = {
    "C11": "process-level liveness, timeouts and resource release over goroutines, channels, select, sockets and timers: none of it is executable by a sequential SSA-to-SMT encoder at useful bounds (DESIGN.md §7)",
    "C12": "every API call returning within its timeout, Close leaving no goroutine or socket: scheduling and I/O facts of a 2500-line channel-driven run loop (DESIGN.md §7)",
    "C13": "quantifies over schedules and crash points of real goroutines; no sequential kernel says anything about bounded-time Close or leaked goroutines (DESIGN.md §7)",
}

