package base64streamreader

import (
	"encoding/base64"
	"io"
)

type zzChunkReader struct {
	data []byte
	pos  int
}

func (r *zzChunkReader) Read(p []byte) (int, error) {
	if r.pos >= len(r.data) {
		return 0, io.EOF
	}
	max := len(r.data) - r.pos
	if len(p) < max {
		max = len(p)
	}
	k := zzInt("chunk")
	zzAssume(k >= 1)
	zzAssume(k <= max)
	k = zzConcretize(k)
	n := copy(p, r.data[r.pos:r.pos+k])
	r.pos += n
	return n, nil
}

// C04 (HTTP tunnel carrier): messages written as separate padded base64 blocks
// and concatenated decode to the concatenation of the messages, whatever the
// partition of the byte stream into reads (including 1-byte reads and splits
// inside a quantum or between the two padding characters).
func ZzC04Base64Stream() {
	P := zzParam("P", 3)
	n1 := zzConcretize(zzIntIn("len1", 1, P))
	n2 := zzConcretize(zzIntIn("len2", 1, P))
	m1 := zzBytes("msg1", n1, n1)
	m2 := zzBytes("msg2", n2, n2)
	enc := []byte(base64.StdEncoding.EncodeToString(m1) + base64.StdEncoding.EncodeToString(m2))
	r := New(&zzChunkReader{data: enc})
	out := make([]byte, n1+n2)
	got, err := io.ReadFull(r, out)
	zzAssert(err == nil, "the whole decoded stream can be read")
	zzAssert(got == n1+n2, "decoded length = sum of the message lengths")
	zzAssert(zzBytesEq(out[:n1], m1), "first message decoded")
	zzAssert(zzBytesEq(out[n1:], m2), "second message decoded")
	zzCover("padding inside the stream", n1%3 != 0)
}
