package asyncprocessor

import (
	"context"
	"errors"

	"github.com/bluenviron/gortsplib/v5/pkg/ringbuffer"
)

var zzErrBoom = errors.New("boom")

// C16 (consumer loop, sequential): n callbacks are accepted by the real queue,
// then the real consumer loop (run) is executed on the calling goroutine. One
// callback may fail (errAt) and one may close the queue (closeAt), in any
// order. Obligations: callbacks run exactly once each, in acceptance order, up
// to and including the first that fails or closes; nothing runs after that;
// the error is reported exactly once, with the consumer not yet marked as
// finished (Close joins the consumer through `done`, so a report issued after
// `done` is closed could still be running after Close has returned); `done`
// is closed when run returns.
func ZzC16Processor() {
	size := zzParam("SIZE", 4)
	w := &Processor{BufferSize: size}
	w.buffer, _ = ringbuffer.New(uint64(size))
	w.ctx = context.Background()
	cancelled := 0
	w.ctxCancel = func() { cancelled++ }
	w.done = make(chan struct{})

	n := zzConcretize(zzIntIn("n", 1, size))
	errAt := zzIntIn("errAt", 0, size)
	closeAt := zzIntIn("closeAt", 0, size)
	// the loop must come to an end by itself: some accepted callback fails or closes
	zzAssume(zzOr(errAt < n, closeAt < n))

	var order []int
	onErr := 0
	ranAfterError := 0
	w.OnError = func(_ context.Context, err error) {
		onErr++
		zzAssert(err == zzErrBoom, "the callback's own error is reported")
		zzAssert(!zzChanClosed(w.done), "error reported before the consumer is marked as finished")
		// a producer that is still pushing while the error is being reported
		// (the library's OnError handlers block for a while): its items are
		// accepted by the ring but must never run, the queue has failed
		w.Push(func() error {
			ranAfterError++
			return nil
		})
	}
	for i := 0; i < n; i++ {
		i := i
		ok := w.Push(func() error {
			order = append(order, i)
			if i == closeAt {
				w.buffer.Close()
			}
			if i == errAt {
				return zzErrBoom
			}
			return nil
		})
		zzAssert(ok, "accepted while below capacity")
	}
	zzAssert(!w.Push(func() error { return nil }) == (n == size), "refused exactly at capacity")

	w.run()

	stop := errAt
	if closeAt < stop {
		stop = closeAt
	}
	zzAssert(len(order) == stop+1, "exactly the callbacks up to the first failure/close ran")
	for k, v := range order {
		zzAssert(v == k, "callbacks ran once each, in acceptance order")
	}
	if errAt <= closeAt {
		zzAssert(onErr == 1, "processing error reported exactly once")
	} else {
		zzAssert(onErr == 0, "no error reported when no callback failed")
	}
	zzAssert(ranAfterError == 0, "nothing pushed while the error is reported runs afterwards")
	zzAssert(zzChanClosed(w.done), "consumer marked as finished when the loop returns")

	// Close (consumer not running): cancels, closes the queue; nothing can be pulled afterwards
	w.Close()
	zzAssert(cancelled == 1, "context cancelled by Close")
	_, ok := w.buffer.Pull()
	zzAssert(!ok, "nothing is handed out after Close")
	zzCover("error first", errAt <= closeAt)
	zzCover("close first", closeAt < errAt)
	zzCover("full queue", n == size)
}
