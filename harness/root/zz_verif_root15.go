package gortsplib

import (
	"net"
	"syscall"
	"time"

	"github.com/bluenviron/gortsplib/v5/internal/asyncprocessor"
	"github.com/bluenviron/gortsplib/v5/pkg/description"
	"github.com/bluenviron/gortsplib/v5/pkg/format"
	"github.com/bluenviron/gortsplib/v5/pkg/rtpsender"
)

// packet connection that records what is written to it
type zzPCW struct{ sizes []int }

func (p *zzPCW) ReadFrom(b []byte) (int, net.Addr, error) { return 0, nil, net.ErrClosed }
func (p *zzPCW) WriteTo(b []byte, addr net.Addr) (int, error) {
	p.sizes = append(p.sizes, len(b))
	return len(b), nil
}
func (p *zzPCW) Close() error                          { return nil }
func (p *zzPCW) LocalAddr() net.Addr                   { return &net.UDPAddr{} }
func (p *zzPCW) SetDeadline(t time.Time) error         { return nil }
func (p *zzPCW) SetReadDeadline(t time.Time) error     { return nil }
func (p *zzPCW) SetWriteDeadline(t time.Time) error    { return nil }
func (p *zzPCW) SetReadBuffer(bytes int) error         { return nil }
func (p *zzPCW) SyscallConn() (syscall.RawConn, error) { return nil, nil }

// C18 (multicast writer and server-stream RTCP entry points, plain and SRTP):
// RTP written to a stream that has a multicast writer, RTCP written to the
// stream media, and RTCP written by the multicast writer itself (its automatic
// sender reports) leave in datagrams of at most MaxPacketSize bytes - SRTP /
// SRTCP overhead and MKI included - or are refused with nothing transmitted.
func ZzC18MulticastWrite() {
	P := zzParam("P", 60)
	maxPS := zzIntIn("MaxPacketSize", 40, zzParam("MAXPS", 80))
	s := &Server{MaxPacketSize: maxPS}
	now := func() time.Time { return time.Time{} }
	var ctx *wrappedSRTPContext
	switch zzParam("SRTP", 0) {
	case 1:
		ctx = zzSRTPCtx(false)
	case 2:
		ctx = zzSRTPCtx(true)
	}
	forma := &format.Generic{PayloadTyp: 96, RTPMa: "private/90000", ClockRat: 90000}
	medi := &description.Media{Type: description.MediaTypeVideo, Formats: []format.Format{forma}}
	st := &ServerStream{Server: s, activeUnicastReaders: map[*ServerSession]struct{}{}}
	rtpc, rtcpc := &zzPCW{}, &zzPCW{}
	smm := &serverMulticastWriterMedia{media: medi, maxPacketSize: maxPS, srtpOutCtx: ctx,
		rtpl: &serverUDPListener{pc: rtpc}, rtcpl: &serverUDPListener{pc: rtcpc},
		rtpAddr: &net.UDPAddr{Port: 5000}, rtcpAddr: &net.UDPAddr{Port: 5001},
		formats: map[uint8]*serverMulticastWriterFormat{}}
	smm.writer = &asyncprocessor.Processor{BufferSize: 8}
	smm.writer.Initialize()
	snd := &rtpsender.Sender{ClockRate: 90000, TimeNow: now}
	snd.Initialize()
	smf := &serverMulticastWriterFormat{timeNow: now, smm: smm, format: forma, rtpSender: snd}
	smm.formats[96] = smf
	ssm := &serverStreamMedia{st: st, media: medi, multicastWriter: smm, srtpOutCtx: ctx}
	ssf := &serverStreamFormat{ssm: ssm, format: forma, localSSRC: zzU32("localSSRC"), multicastWriter: smf}

	pkt := zzPacket(1)
	pkt.PayloadType = 96
	pkt.Payload = zzBytesLO("payload", 0, P)
	err := ssf.writePacketRTP(pkt, time.Time{})
	smm.writer.ZzDrain()
	if err == nil {
		zzAssert(len(rtpc.sizes) == 1, "accepted RTP write: one multicast datagram")
		if len(rtpc.sizes) == 1 {
			zzAssert(rtpc.sizes[0] <= maxPS, "multicast RTP datagram <= MaxPacketSize (overhead included)")
		}
	} else {
		zzAssert(len(rtpc.sizes) == 0, "refused RTP write transmits nothing")
	}
	zzAssert(len(rtcpc.sizes) == 0, "RTP never leaves through the RTCP socket")
	zzCover("rtp accepted", err == nil)
	zzCover("rtp refused", err != nil)

	// RTCP through the stream media (application reports) ...
	rep, _ := zzReport(zzParam("NREP", 3))
	err2 := ssm.writePacketRTCP(rep)
	smm.writer.ZzDrain()
	if err2 == nil {
		zzAssert(len(rtcpc.sizes) == 1, "accepted RTCP write: one multicast datagram")
		if len(rtcpc.sizes) == 1 {
			zzAssert(rtcpc.sizes[0] <= maxPS, "multicast RTCP datagram <= MaxPacketSize (overhead included)")
		}
	} else {
		zzAssert(len(rtcpc.sizes) == 0, "refused RTCP write transmits nothing")
	}
	// ... and through the multicast writer itself (automatic sender reports)
	rtcpc.sizes = nil
	err3 := smm.writePacketRTCP(rep)
	smm.writer.ZzDrain()
	if err3 == nil {
		zzAssert(len(rtcpc.sizes) == 1, "accepted sender report: one multicast datagram")
		if len(rtcpc.sizes) == 1 {
			zzAssert(rtcpc.sizes[0] <= maxPS, "multicast sender report <= MaxPacketSize (overhead included)")
		}
	} else {
		zzAssert(len(rtcpc.sizes) == 0, "refused sender report transmits nothing")
	}
	zzAssert((err2 == nil) == (err3 == nil), "both RTCP entry points apply the same limit")
	zzCover("rtcp accepted", err2 == nil)
	zzCover("rtcp refused", err2 != nil)
}
