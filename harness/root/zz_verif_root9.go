package gortsplib

import (
	"bufio"
	"bytes"
	"net"
	"time"

	"github.com/bluenviron/gortsplib/v5/pkg/base"
	"github.com/bluenviron/gortsplib/v5/pkg/conn"
)

type zzNetConn struct {
	writes [][]byte
}

func (c *zzNetConn) Read(b []byte) (int, error) { return 0, nil }
func (c *zzNetConn) Write(b []byte) (int, error) {
	c.writes = append(c.writes, append([]byte(nil), b...))
	return len(b), nil
}
func (c *zzNetConn) Close() error                       { return nil }
func (c *zzNetConn) LocalAddr() net.Addr                { return &net.TCPAddr{} }
func (c *zzNetConn) RemoteAddr() net.Addr               { return &net.TCPAddr{} }
func (c *zzNetConn) SetDeadline(t time.Time) error      { return nil }
func (c *zzNetConn) SetReadDeadline(t time.Time) error  { return nil }
func (c *zzNetConn) SetWriteDeadline(t time.Time) error { return nil }

var zzOuterMethods = []base.Method{base.Options, base.Describe, base.Announce, base.Setup, base.Play, base.Record,
	base.Pause, base.Teardown, base.GetParameter, base.SetParameter, base.Method("BOGUS")}

// C02 (one response per request, CSeq echoed): for every request method, with
// or without a CSeq header (value symbolic), with or without a Session header
// naming an unknown session, handleRequestOuter writes exactly one response
// whose CSeq equals the request's.
func ZzC02OneResponse() {
	nc := &zzNetConn{}
	s := &Server{Handler: &zzHandler{status: base.StatusNotFound}, WriteTimeout: time.Second}
	s.timeNow = time.Now
	sc := &ServerConn{s: s, nconn: nc, remoteAddr: &net.TCPAddr{IP: net.IP{127, 0, 0, 1}}}
	sc.conn = conn.NewConn(bufio.NewReader(bytes.NewReader(nil)), nc)
	m := zzOuterMethods[zzConcretize(zzIntIn("method", 0, len(zzOuterMethods)-1))]
	req := &base.Request{Method: m, URL: &base.URL{Scheme: "rtsp", Host: "h", Path: "/p"}, Header: base.Header{}}
	hasCSeq := zzBool("hasCSeq")
	cseq := zzString("cseq", 1, 3)
	ok := true
	for i := 0; i < 3; i++ {
		c := zzSAt(cseq, i)
		ok = zzAnd(ok, zzImplies(i < len(cseq), zzAnd(c >= '0', c <= '9')))
	}
	zzAssume(ok)
	if hasCSeq {
		req.Header["CSeq"] = base.HeaderValue{cseq}
	}
	sc.handleRequestOuter(req)
	zzAssert(len(nc.writes) == 1, "exactly one response is written per request")
	if len(nc.writes) == 1 {
		var res base.Response
		err := res.Unmarshal(bufio.NewReader(bytes.NewReader(nc.writes[0])))
		zzAssert(err == nil, "the response is well formed")
		if err == nil {
			got, present := res.Header["CSeq"]
			if hasCSeq {
				zzAssert(present && len(got) == 1 && got[0] == cseq, "CSeq echoed")
			} else {
				zzAssert(res.StatusCode == base.StatusBadRequest, "request without CSeq answered with 400")
			}
		}
	}
	zzCover("with cseq", hasCSeq)
	zzCover("without cseq", !hasCSeq)
	zzAssertMustFail(hasCSeq, "twin: every request carries a CSeq")
}
