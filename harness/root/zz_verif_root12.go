package gortsplib

import (
	"net"
	"time"

	"github.com/pion/rtp"

	"github.com/bluenviron/gortsplib/v5/pkg/format"
	"github.com/bluenviron/gortsplib/v5/pkg/rtpreceiver"
)

// C01 (receive side over UDP, payload identity across buffer reuse): K valid RTP
// datagrams with ARBITRARY sequence numbers (so: in order, with gaps, reordered,
// duplicated) and symbolic payloads go through the real client listener loop
// (with its receive-buffer replacement policy), the real demultiplexing by
// payload type, fastRTPUnmarshal and the real reorder buffer. Every packet handed
// to the application carries exactly the payload that was sent with its sequence
// number - also when it was parked in the reorder buffer while later datagrams
// were read - and no sequence number is delivered twice.
func ZzC01ClientUDPReceive() {
	K := zzParam("K", 3)
	P := zzParam("P", 2)
	c := &Client{}
	c.timeNow = func() time.Time { return time.Unix(1700000000, 0) }
	c.OnPacketsLost = func(uint64) {}
	c.OnDecodeError = func(error) {}
	cm := &clientMedia{c: c, formats: map[uint8]*clientFormat{}}
	forma := &format.Generic{PayloadTyp: 96, RTPMa: "private/90000", ClockRat: 90000}
	cf := &clientFormat{cm: cm, format: forma}
	cf.rtpReceiver = &rtpreceiver.Receiver{ClockRate: 90000, UnrealiableTransport: true, BufferSize: zzParam("B", 4), Period: time.Second, TimeNow: c.timeNow}
	zzAssert(cf.rtpReceiver.Initialize() == nil, "receiver initialises")
	var got []*rtp.Packet
	cf.onPacketRTP = func(pkt *rtp.Packet) { got = append(got, pkt) }
	cm.formats[96] = cf

	ip := net.IPv4(127, 0, 0, 1)
	pc := &zzPC2{}
	seqs := make([]uint16, K)
	payloads := make([][]byte, K)
	for k := 0; k < K; k++ {
		seqs[k] = zzU16("seq")
		// all sequence numbers lie within a quarter of the 16-bit space around the
		// first one (loss, reordering and duplication of a stream, not jumps of half
		// the space, where "ahead" and "behind" are the same distance by definition)
		d16 := int16(seqs[k] - seqs[0])
		zzAssume(zzAnd(d16 > -16384, d16 < 16384))
		payloads[k] = zzBytes("payload", P, P)
		d := make([]byte, 12+P)
		d[0] = 0x80
		d[1] = 96
		d[2] = byte(seqs[k] >> 8)
		d[3] = byte(seqs[k])
		d[7] = byte(k) // timestamp
		d[11] = 0x2a   // SSRC
		copy(d[12:], payloads[k])
		pc.ips = append(pc.ips, ip)
		pc.ports = append(pc.ports, 5000)
		pc.data = append(pc.data, d)
	}
	u := &clientUDPListener{c: c, pc: pc, readIP: ip, readPort: 5000, done: make(chan struct{})}
	u.readFunc = cm.readPacketRTPUDPPlay
	u.run()

	for i, p := range got {
		ok := false
		for k := 0; k < K; k++ {
			ok = zzOr(ok, zzAnd(p.SequenceNumber == seqs[k], zzBytesEq(p.Payload, payloads[k])))
		}
		zzAssert(ok, "a delivered packet carries the payload that was sent with its sequence number")
		for j := 0; j < i; j++ {
			zzAssert(got[j].SequenceNumber != p.SequenceNumber, "no sequence number is delivered twice")
		}
	}
	zzAssert(len(got) >= 1, "the first datagram is always delivered")
	zzCover("all delivered", len(got) == K)
	zzCover("some withheld or dropped", len(got) < K)
}
