package gortsplib

import (
	"github.com/pion/rtcp"

	"github.com/bluenviron/gortsplib/v5/internal/asyncprocessor"
)

func zzReport(maxReports int) (rtcp.Packet, int) {
	n := zzConcretize(zzIntIn("nreports", 0, maxReports))
	rr := &rtcp.ReceiverReport{SSRC: zzU32("ssrc")}
	for i := 0; i < n; i++ {
		rr.Reports = append(rr.Reports, rtcp.ReceptionReport{SSRC: zzU32("rssrc"), FractionLost: zzU8("fl"),
			TotalLost: zzU32("tl") & 0xFFFFFF, LastSequenceNumber: zzU32("lsn"), Jitter: zzU32("jit")})
	}
	// profile-specific extensions (RFC 3550 6.4.2): 0, 4 or 8 extra bytes
	if ne := zzConcretize(zzIntIn("nprofext", 0, zzParam("NPE", 2))); ne > 0 {
		rr.ProfileExtensions = zzBytes("profext", 4*ne, 4*ne)
	}
	return rr, 8 + 24*n + len(rr.ProfileExtensions)
}

// C18 (RTCP, client and server session): explicit length check against
// MaxPacketSize; refused => error and nothing queued; accepted => queued once,
// bytes <= MaxPacketSize.
func ZzC18WriteRTCP() {
	maxPS := zzIntIn("MaxPacketSize", 8, zzParam("MAXPS", 120))
	pkt, size := zzReport(zzParam("NREP", 4))
	// client
	c := &Client{MaxPacketSize: maxPS}
	w := &asyncprocessor.Processor{BufferSize: 8}
	w.Initialize()
	c.writer = w
	cm := &clientMedia{c: c}
	var sent [][]byte
	cm.writePacketRTCPInQueue = func(b []byte) error {
		sent = append(sent, b)
		return nil
	}
	err := cm.writePacketRTCP(pkt)
	n, derr := w.ZzDrain()
	zzAssert(derr == nil, "client: queued writes run without error")
	if err != nil {
		zzAssert(n == 0, "client: a refused RTCP write transmits nothing")
		zzAssert(size > maxPS, "client: an RTCP packet within the limit is not refused")
	} else {
		zzAssert(n == 1, "client: an accepted RTCP write is queued exactly once")
		zzAssert(size <= maxPS, "client: an RTCP packet above the limit is refused")
		if len(sent) == 1 {
			zzAssert(len(sent[0]) == size, "client: RTCP size on the wire")
			zzAssert(len(sent[0]) <= maxPS, "client: RTCP packet <= MaxPacketSize")
		}
	}
	// server session
	s := &Server{MaxPacketSize: maxPS}
	w2 := &asyncprocessor.Processor{BufferSize: 8}
	w2.Initialize()
	ss := &ServerSession{s: s, writer: w2}
	ssm := &serverSessionMedia{ss: ss}
	var sent2 [][]byte
	ssm.writePacketRTCPInQueue = func(b []byte) error {
		sent2 = append(sent2, b)
		return nil
	}
	err2 := ssm.writePacketRTCP(pkt)
	n2, _ := w2.ZzDrain()
	if err2 != nil {
		zzAssert(n2 == 0, "session: a refused RTCP write transmits nothing")
		zzAssert(size > maxPS, "session: an RTCP packet within the limit is not refused")
	} else {
		zzAssert(n2 == 1, "session: an accepted RTCP write is queued exactly once")
		zzAssert(size <= maxPS, "session: an RTCP packet above the limit is refused")
		if len(sent2) == 1 {
			zzAssert(len(sent2[0]) <= maxPS, "session: RTCP packet <= MaxPacketSize")
		}
	}
	zzCover("accepted", err == nil)
	zzCover("refused", err != nil)
}
