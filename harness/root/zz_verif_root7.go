package gortsplib

import (
	"time"

	"github.com/bluenviron/gortsplib/v5/internal/asyncprocessor"
	"github.com/bluenviron/gortsplib/v5/pkg/description"
	"github.com/bluenviron/gortsplib/v5/pkg/format"
	"github.com/bluenviron/gortsplib/v5/pkg/rtpsender"
)

func zzSRTPCtx(withMKI bool) *wrappedSRTPContext {
	ctx := &wrappedSRTPContext{key: make([]byte, srtpKeyLength)}
	if withMKI {
		ctx.mki = []byte{1, 2, 3, 4}
	}
	zzAssert(ctx.initialize() == nil, "srtp context initialises")
	return ctx
}

// C18 with SRTP: whatever leaves the client in a secure session (RTP and RTCP)
// is at most MaxPacketSize bytes, SRTP overhead included (auth tag, SRTCP
// index, and the MKI when the key management supplied one); otherwise the
// write is refused. Cipher and HMAC are not modelled: only sizes are decided.
func ZzC18ClientSRTPSizes() {
	P := zzParam("P", 60)
	maxPS := zzIntIn("MaxPacketSize", 40, zzParam("MAXPS", 80))
	withMKI := zzParam("MKI", 0) != 0
	c := &Client{MaxPacketSize: maxPS}
	c.timeNow = func() time.Time { return time.Time{} }
	w := &asyncprocessor.Processor{BufferSize: 8}
	w.Initialize()
	c.writer = w
	cm := &clientMedia{c: c, srtpOutCtx: zzSRTPCtx(withMKI)}
	var sent [][]byte
	snd := &rtpsender.Sender{ClockRate: 90000, TimeNow: c.timeNow}
	snd.Initialize()
	cf := &clientFormat{cm: cm, format: &format.Generic{PayloadTyp: 96, RTPMa: "private/90000", ClockRat: 90000}, localSSRC: zzU32("localSSRC"), rtpSender: snd}
	cf.writePacketRTPInQueue = func(b []byte) error {
		sent = append(sent, b)
		return nil
	}
	cm.writePacketRTCPInQueue = func(b []byte) error {
		sent = append(sent, b)
		return nil
	}
	pkt := zzPacket(1)
	pkt.Payload = zzBytesLO("payload", 0, P)
	err := cf.writePacketRTP(pkt, time.Time{})
	w.ZzDrain()
	if err == nil {
		zzAssert(len(sent) == 1, "accepted SRTP write queued once")
		if len(sent) == 1 {
			zzAssert(len(sent[0]) <= maxPS, "SRTP packet on the wire <= MaxPacketSize (overhead included)")
		}
	} else {
		zzAssert(len(sent) == 0, "refused SRTP write transmits nothing")
	}
	zzCover("rtp accepted", err == nil)
	zzCover("rtp refused", err != nil)
	sent = nil
	rep, _ := zzReport(zzParam("NREP", 3))
	err2 := cm.writePacketRTCP(rep)
	w.ZzDrain()
	if err2 == nil {
		if len(sent) == 1 {
			zzAssert(len(sent[0]) <= maxPS, "SRTCP packet on the wire <= MaxPacketSize (overhead included)")
		}
	} else {
		zzAssert(len(sent) == 0, "refused SRTCP write transmits nothing")
	}
	zzCover("rtcp accepted", err2 == nil)
	zzCover("rtcp refused", err2 != nil)
}

// C18 with SRTP on the SERVER side: RTP written through a server session
// (back channel / record direction) and through a server stream (fan-out to a
// secure reader) leaves in buffers of at most MaxPacketSize bytes, overhead
// and MKI included, or is refused with nothing queued.
func ZzC18ServerSRTPSizes() {
	P := zzParam("P", 60)
	maxPS := zzIntIn("MaxPacketSize", 40, zzParam("MAXPS", 80))
	withMKI := zzParam("MKI", 0) != 0
	s := &Server{MaxPacketSize: maxPS}
	now := func() time.Time { return time.Time{} }
	forma := &format.Generic{PayloadTyp: 96, RTPMa: "private/90000", ClockRat: 90000}
	medi := &description.Media{Type: description.MediaTypeVideo, Formats: []format.Format{forma}}
	ctx := zzSRTPCtx(withMKI)

	// server session
	w := &asyncprocessor.Processor{BufferSize: 8}
	w.Initialize()
	ss := &ServerSession{s: s, writer: w}
	rsm := &serverSessionMedia{ss: ss, media: medi, srtpOutCtx: ctx}
	snd := &rtpsender.Sender{ClockRate: 90000, TimeNow: now}
	snd.Initialize()
	rsf := &serverSessionFormat{ssm: rsm, format: forma, rtpSender: snd, localSSRC: zzU32("localSSRC")}
	var sent [][]byte
	rsf.writePacketRTPInQueue = func(b []byte) error {
		sent = append(sent, b)
		return nil
	}
	pkt := zzPacket(1)
	pkt.PayloadType = 96
	pkt.Payload = zzBytesLO("payload", 0, P)
	err := rsf.writePacketRTP(pkt, time.Time{})
	w.ZzDrain()
	if err == nil {
		zzAssert(len(sent) == 1, "session: accepted SRTP write queued once")
		if len(sent) == 1 {
			zzAssert(len(sent[0]) <= maxPS, "session: SRTP packet <= MaxPacketSize (overhead included)")
		}
	} else {
		zzAssert(len(sent) == 0, "session: refused SRTP write transmits nothing")
	}
	zzCover("session accepted", err == nil)
	zzCover("session refused", err != nil)

	// server stream with one secure unicast reader
	st := &ServerStream{Server: s, activeUnicastReaders: map[*ServerSession]struct{}{}}
	stm := &serverStreamMedia{st: st, media: medi, srtpOutCtx: ctx}
	ssf := &serverStreamFormat{ssm: stm, format: forma, localSSRC: zzU32("streamSSRC")}
	w2 := &asyncprocessor.Processor{BufferSize: 8}
	w2.Initialize()
	rs := &ServerSession{s: s, writer: w2, setuppedMedias: map[*description.Media]*serverSessionMedia{}}
	rm := &serverSessionMedia{ss: rs, media: medi, formats: map[uint8]*serverSessionFormat{}, srtpOutCtx: ctx}
	snd2 := &rtpsender.Sender{ClockRate: 90000, TimeNow: now}
	snd2.Initialize()
	rf := &serverSessionFormat{ssm: rm, format: forma, rtpSender: snd2}
	var sent2 [][]byte
	rf.writePacketRTPInQueue = func(b []byte) error {
		sent2 = append(sent2, b)
		return nil
	}
	rm.formats[96] = rf
	rs.setuppedMedias[medi] = rm
	st.activeUnicastReaders[rs] = struct{}{}
	pkt2 := zzPacket(1)
	pkt2.PayloadType = 96
	pkt2.Payload = zzBytesLO("payload2", 0, P)
	err2 := ssf.writePacketRTP(pkt2, time.Time{})
	w2.ZzDrain()
	if err2 == nil {
		zzAssert(len(sent2) == 1, "stream: accepted SRTP write reaches the reader once")
		if len(sent2) == 1 {
			zzAssert(len(sent2[0]) <= maxPS, "stream: SRTP packet <= MaxPacketSize (overhead included)")
		}
	} else {
		zzAssert(len(sent2) == 0, "stream: refused SRTP write reaches nobody")
	}
	zzCover("stream accepted", err2 == nil)
	zzCover("stream refused", err2 != nil)
}
