package gortsplib

import (
	"time"

	"github.com/bluenviron/gortsplib/v5/internal/asyncprocessor"
	"github.com/bluenviron/gortsplib/v5/pkg/format"
	"github.com/bluenviron/gortsplib/v5/pkg/rtpsender"
)

func zzSRTPCtx(withMKI bool) *wrappedSRTPContext {
	ctx := &wrappedSRTPContext{key: make([]byte, srtpKeyLength)}
	if withMKI {
		ctx.mki = []byte{1, 2, 3, 4}
	}
	zzAssert(ctx.initialize() == nil, "srtp context initialises")
	return ctx
}

// C18 with SRTP: whatever leaves the client in a secure session (RTP and RTCP)
// is at most MaxPacketSize bytes, SRTP overhead included (auth tag, SRTCP
// index, and the MKI when the key management supplied one); otherwise the
// write is refused. Cipher and HMAC are not modelled: only sizes are decided.
func ZzC18ClientSRTPSizes() {
	P := zzParam("P", 60)
	maxPS := zzIntIn("MaxPacketSize", 40, zzParam("MAXPS", 80))
	withMKI := zzParam("MKI", 0) != 0
	c := &Client{MaxPacketSize: maxPS}
	c.timeNow = func() time.Time { return time.Time{} }
	w := &asyncprocessor.Processor{BufferSize: 8}
	w.Initialize()
	c.writer = w
	cm := &clientMedia{c: c, srtpOutCtx: zzSRTPCtx(withMKI)}
	var sent [][]byte
	snd := &rtpsender.Sender{ClockRate: 90000, TimeNow: c.timeNow}
	snd.Initialize()
	cf := &clientFormat{cm: cm, format: &format.Generic{PayloadTyp: 96, RTPMa: "private/90000", ClockRat: 90000}, localSSRC: zzU32("localSSRC"), rtpSender: snd}
	cf.writePacketRTPInQueue = func(b []byte) error {
		sent = append(sent, b)
		return nil
	}
	cm.writePacketRTCPInQueue = func(b []byte) error {
		sent = append(sent, b)
		return nil
	}
	pkt := zzPacket(1)
	pkt.Payload = zzBytesLO("payload", 0, P)
	err := cf.writePacketRTP(pkt, time.Time{})
	w.ZzDrain()
	if err == nil {
		zzAssert(len(sent) == 1, "accepted SRTP write queued once")
		if len(sent) == 1 {
			zzAssert(len(sent[0]) <= maxPS, "SRTP packet on the wire <= MaxPacketSize (overhead included)")
		}
	} else {
		zzAssert(len(sent) == 0, "refused SRTP write transmits nothing")
	}
	zzCover("rtp accepted", err == nil)
	zzCover("rtp refused", err != nil)
	sent = nil
	rep, _ := zzReport(zzParam("NREP", 3))
	err2 := cm.writePacketRTCP(rep)
	w.ZzDrain()
	if err2 == nil {
		if len(sent) == 1 {
			zzAssert(len(sent[0]) <= maxPS, "SRTCP packet on the wire <= MaxPacketSize (overhead included)")
		}
	} else {
		zzAssert(len(sent) == 0, "refused SRTCP write transmits nothing")
	}
	zzCover("rtcp accepted", err2 == nil)
	zzCover("rtcp refused", err2 != nil)
}
