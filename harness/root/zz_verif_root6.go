package gortsplib

import (
	"errors"
	"net"
	"syscall"
	"time"
)

type zzPC2 struct {
	calls int
	ips   []net.IP
	ports []int
	data  [][]byte
}

func (p *zzPC2) ReadFrom(b []byte) (int, net.Addr, error) {
	k := p.calls
	p.calls++
	if k >= len(p.ips) {
		return 0, nil, errors.New("closed")
	}
	n := copy(b, p.data[k])
	return n, &net.UDPAddr{IP: p.ips[k], Port: p.ports[k]}, nil
}
func (p *zzPC2) WriteTo(b []byte, addr net.Addr) (int, error) { return len(b), nil }
func (p *zzPC2) Close() error                                 { return nil }
func (p *zzPC2) LocalAddr() net.Addr                          { return &net.UDPAddr{} }
func (p *zzPC2) SetDeadline(t time.Time) error                { return nil }
func (p *zzPC2) SetReadDeadline(t time.Time) error            { return nil }
func (p *zzPC2) SetWriteDeadline(t time.Time) error           { return nil }
func (p *zzPC2) SetReadBuffer(bytes int) error                { return nil }
func (p *zzPC2) SyscallConn() (syscall.RawConn, error)        { return nil, nil }

func zzSameIP(a, b net.IP) bool {
	x, y := zzTo16(a), zzTo16(b)
	same := true
	for i := 0; i < 16; i++ {
		same = zzAnd(same, x[i] == y[i])
	}
	return same
}

// C19 (client): datagrams are delivered only from the negotiated IP and, unless
// the any-port option is on and no port was announced, the negotiated port; with
// any-port the port of the first accepted datagram is latched and enforced
// afterwards; rejected datagrams touch neither the callback nor the timeout clock.
func ZzC19ClientUDPFilter() {
	anyPort := zzBool("anyPort")
	c := &Client{AnyPortEnable: anyPort}
	c.timeNow = func() time.Time { return time.Unix(1700000000, 0) }
	readIP := zzIP("read")
	readPort := zzIntIn("readPort", 0, 65535)
	ip1, port1 := zzIP("src1"), zzIntIn("src1Port", 1, 65535)
	ip2, port2 := zzIP("src2"), zzIntIn("src2Port", 1, 65535)
	d1, d2 := zzBytes("dgram1", 1, 2), zzBytes("dgram2", 1, 2)
	pc := &zzPC2{ips: []net.IP{ip1, ip2}, ports: []int{port1, port2}, data: [][]byte{d1, d2}}
	u := &clientUDPListener{c: c, pc: pc, readIP: readIP, readPort: readPort, done: make(chan struct{})}
	var got [][]byte
	u.readFunc = func(b []byte) bool {
		got = append(got, append([]byte(nil), b...))
		return true
	}
	u.run()
	// reference
	want1 := zzSameIP(readIP, ip1)
	latched := readPort
	if want1 {
		if anyPort && readPort == 0 {
			latched = port1
		} else if readPort != port1 {
			want1 = false
		}
	}
	want2 := zzSameIP(readIP, ip2)
	if want2 {
		if anyPort && latched == 0 {
			latched = port2
		} else if latched != port2 {
			want2 = false
		}
	}
	n := 0
	if want1 {
		n++
	}
	if want2 {
		n++
	}
	zzAssert(len(got) == n, "exactly the datagrams from the negotiated peer are delivered")
	if len(got) == n {
		k := 0
		if want1 {
			zzAssert(zzBytesEq(got[k], d1), "first datagram delivered unchanged")
			k++
		}
		if want2 {
			zzAssert(zzBytesEq(got[k], d2), "second datagram delivered unchanged")
		}
	}
	if n == 0 {
		zzAssert(u.lastPacketTime.Load() == 0, "rejected datagrams do not refresh the timeout clock")
	} else {
		zzAssert(u.lastPacketTime.Load() == 1700000000, "accepted datagram refreshes the timeout clock")
	}
	zzCover("both delivered", n == 2)
	zzCover("none delivered", n == 0)
	zzCover("port latched", anyPort && readPort == 0 && n > 0)
}
