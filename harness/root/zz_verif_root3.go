package gortsplib

import (
	"time"

	"github.com/pion/rtp"

	"github.com/bluenviron/gortsplib/v5/internal/asyncprocessor"
	"github.com/bluenviron/gortsplib/v5/pkg/description"
	"github.com/bluenviron/gortsplib/v5/pkg/format"
	"github.com/bluenviron/gortsplib/v5/pkg/rtpsender"
)

type zzReader struct {
	ss   *ServerSession
	w    *asyncprocessor.Processor
	sent [][]byte
}

func zzCheckWire(b []byte, size, maxPS int, local uint32, want *rtp.Packet, wantPayload []byte, who string) {
	zzAssert(len(b) <= maxPS, who+": transmitted packet <= MaxPacketSize")
	zzAssert(len(b) == size, who+": transmitted size = header + CSRC + payload + padding")
	var got rtp.Packet
	uerr := got.Unmarshal(b)
	zzAssert(uerr == nil, who+": transmitted bytes are a valid RTP packet")
	if uerr == nil {
		zzAssert(got.SSRC == local, who+": SSRC on the wire is the one announced for the format")
		zzAssert(got.SequenceNumber == want.SequenceNumber, who+": sequence number preserved")
		zzAssert(got.Timestamp == want.Timestamp, who+": timestamp preserved")
		zzAssert(got.Marker == want.Marker, who+": marker preserved")
		zzAssert(got.PayloadType == want.PayloadType, who+": payload type preserved")
		zzAssert(zzBytesEq(got.Payload, wantPayload), who+": payload preserved")
	}
}

// C01 + C18 (server stream fan-out, plain RTP): one marshal per packet, every
// active reader's queue receives the packet exactly once, bytes identical and
// within MaxPacketSize, SSRC = the stream format's local SSRC; a packet above
// the limit is refused and reaches no reader.
func ZzC18StreamWriteRTP() {
	P := zzParam("P", 12)
	NR := zzParam("NR", 2)
	maxPS := zzIntIn("MaxPacketSize", 12, zzParam("MAXPS", 36))
	s := &Server{MaxPacketSize: maxPS}
	now := func() time.Time { return time.Time{} }
	forma := &format.Generic{PayloadTyp: 96, RTPMa: "private/90000", ClockRat: 90000}
	medi := &description.Media{Type: description.MediaTypeVideo, Formats: []format.Format{forma}}
	st := &ServerStream{Server: s, activeUnicastReaders: map[*ServerSession]struct{}{}}
	stm := &serverStreamMedia{st: st, media: medi}
	local := zzU32("localSSRC")
	ssf := &serverStreamFormat{ssm: stm, format: forma, localSSRC: local}
	readers := make([]*zzReader, NR)
	for i := range readers {
		r := &zzReader{}
		r.w = &asyncprocessor.Processor{BufferSize: 8}
		r.w.Initialize()
		r.ss = &ServerSession{s: s, writer: r.w, setuppedMedias: map[*description.Media]*serverSessionMedia{}}
		rsm := &serverSessionMedia{ss: r.ss, media: medi, formats: map[uint8]*serverSessionFormat{}}
		snd := &rtpsender.Sender{ClockRate: 90000, TimeNow: now}
		snd.Initialize()
		rsf := &serverSessionFormat{ssm: rsm, format: forma, rtpSender: snd}
		rr := r
		rsf.writePacketRTPInQueue = func(b []byte) error {
			rr.sent = append(rr.sent, b)
			return nil
		}
		rsm.formats[96] = rsf
		r.ss.setuppedMedias[medi] = rsm
		st.activeUnicastReaders[r.ss] = struct{}{}
		readers[i] = r
	}
	pkt := zzPacket(P)
	pkt.PayloadType = 96
	want := *pkt
	wantPayload := append([]byte(nil), pkt.Payload...)
	size := zzWireSize(pkt)
	err := ssf.writePacketRTP(pkt, time.Time{})
	for _, r := range readers {
		n, derr := r.w.ZzDrain()
		zzAssert(derr == nil, "queued writes run without error")
		if err != nil {
			zzAssert(n == 0, "a refused write reaches no reader")
		} else {
			zzAssert(n == 1, "every active reader receives the packet exactly once")
			if len(r.sent) == 1 {
				zzCheckWire(r.sent[0], size, maxPS, local, &want, wantPayload, "reader")
			}
		}
	}
	if err != nil {
		zzAssert(size > maxPS, "a packet within the limit is not refused")
	} else {
		zzAssert(size <= maxPS, "a packet above the limit is refused")
		zzAssert(ssf.rtpPacketsSent == uint64(NR), "packets-sent statistic counts one per reader")
	}
	zzCover("accepted", err == nil)
	zzCover("refused", err != nil)
}

// C18 + C01 (server session write path: back channel / record direction)
func ZzC18SessionWriteRTP() {
	P := zzParam("P", 16)
	maxPS := zzIntIn("MaxPacketSize", 12, zzParam("MAXPS", 40))
	s := &Server{MaxPacketSize: maxPS}
	now := func() time.Time { return time.Time{} }
	forma := &format.Generic{PayloadTyp: 96, RTPMa: "private/90000", ClockRat: 90000}
	medi := &description.Media{Type: description.MediaTypeVideo, Formats: []format.Format{forma}}
	w := &asyncprocessor.Processor{BufferSize: 8}
	w.Initialize()
	ss := &ServerSession{s: s, writer: w}
	rsm := &serverSessionMedia{ss: ss, media: medi}
	snd := &rtpsender.Sender{ClockRate: 90000, TimeNow: now}
	snd.Initialize()
	local := zzU32("localSSRC")
	rsf := &serverSessionFormat{ssm: rsm, format: forma, rtpSender: snd, localSSRC: local}
	var sent [][]byte
	rsf.writePacketRTPInQueue = func(b []byte) error {
		sent = append(sent, b)
		return nil
	}
	pkt := zzPacket(P)
	want := *pkt
	wantPayload := append([]byte(nil), pkt.Payload...)
	size := zzWireSize(pkt)
	err := rsf.writePacketRTP(pkt, time.Time{})
	n, derr := w.ZzDrain()
	zzAssert(derr == nil, "queued writes run without error")
	if err != nil {
		zzAssert(n == 0, "a refused write transmits nothing")
		zzAssert(size > maxPS, "a packet within the limit is not refused")
	} else {
		zzAssert(n == 1, "an accepted write is queued exactly once")
		zzAssert(size <= maxPS, "a packet above the limit is refused")
		if len(sent) == 1 {
			zzCheckWire(sent[0], size, maxPS, local, &want, wantPayload, "session")
		}
	}
	zzCover("accepted", err == nil)
	zzCover("refused", err != nil)
}
