package gortsplib

import (
	"errors"
	"net"
	"syscall"
	"time"
)

type zzPC struct {
	calls   int
	srcIP   net.IP
	srcPort int
	data    []byte
}

func (p *zzPC) ReadFrom(b []byte) (int, net.Addr, error) {
	p.calls++
	if p.calls > 1 {
		return 0, nil, errors.New("closed")
	}
	n := copy(b, p.data)
	return n, &net.UDPAddr{IP: p.srcIP, Port: p.srcPort}, nil
}
func (p *zzPC) WriteTo(b []byte, addr net.Addr) (int, error) { return len(b), nil }
func (p *zzPC) Close() error                                 { return nil }
func (p *zzPC) LocalAddr() net.Addr                          { return &net.UDPAddr{} }
func (p *zzPC) SetDeadline(t time.Time) error                { return nil }
func (p *zzPC) SetReadDeadline(t time.Time) error            { return nil }
func (p *zzPC) SetWriteDeadline(t time.Time) error           { return nil }
func (p *zzPC) SetReadBuffer(bytes int) error                { return nil }
func (p *zzPC) SyscallConn() (syscall.RawConn, error)        { return nil, nil }

func zzIP(name string) net.IP {
	if zzBool(name + ".v6") {
		return net.IP(zzBytes(name, 16, 16))
	}
	return net.IP(zzBytes(name, 4, 4))
}

// canonical 16-byte form (IPv4 as IPv4-mapped IPv6)
func zzTo16(ip net.IP) [16]byte {
	var r [16]byte
	if len(ip) == 4 {
		r[10], r[11] = 0xff, 0xff
		copy(r[12:], ip)
	} else {
		copy(r[:], ip)
	}
	return r
}

// C19 (server): a datagram reaches a session's callback iff it comes from the
// IP address (IPv4 and IPv4-mapped forms identified) AND port registered for
// that session; any other source is ignored without touching the session.
func ZzC19ServerUDPFilter() {
	regIP, regPort := zzIP("reg"), zzIntIn("regPort", 0, 65535)
	srcIP, srcPort := zzIP("src"), zzIntIn("srcPort", 0, 65535)
	data := zzBytes("datagram", 1, 4)
	pc := &zzPC{srcIP: srcIP, srcPort: srcPort, data: data}
	u := &serverUDPListener{pc: pc, clients: make(map[clientAddr]readFunc), done: make(chan struct{})}
	called := 0
	var got []byte
	u.addClient(regIP, regPort, func(b []byte) bool {
		called++
		got = b
		return true
	})
	u.run()
	a, b := zzTo16(regIP), zzTo16(srcIP)
	same := regPort == srcPort
	for i := 0; i < 16; i++ {
		same = zzAnd(same, a[i] == b[i])
	}
	if same {
		zzAssert(called == 1, "datagram from the negotiated address and port is delivered once")
		if called == 1 {
			zzAssert(zzBytesEq(got, data), "delivered datagram is the received one")
		}
	} else {
		zzAssert(called == 0, "datagram from any other address or port is ignored")
	}
	zzCover("delivered", called == 1)
	zzCover("ignored", called == 0)
	zzAssertMustFail(called == 1, "twin: every datagram is delivered")
}
