package gortsplib

import (
	"errors"
	"net"
	"time"

	"github.com/bluenviron/gortsplib/v5/pkg/base"
	"github.com/bluenviron/gortsplib/v5/pkg/liberrors"
)

// zzCtx is a context whose Done() channel is ready from the (after+1)-th
// evaluation on. The run loops evaluate ctx.Done() once per iteration of their
// select, so "after = 1" lets exactly one event be processed and then ends the
// loop with ErrServerTerminated - sequentially, natively and in the engine,
// with exactly one ready case at every select.
type zzCtx struct {
	calls  *int
	after  int
	open   chan struct{}
	closed chan struct{}
}

func zzNewCtx(after int) zzCtx {
	c := zzCtx{calls: new(int), after: after, open: make(chan struct{}), closed: make(chan struct{})}
	close(c.closed)
	return c
}

func (c zzCtx) Deadline() (time.Time, bool) { return time.Time{}, false }
func (c zzCtx) Done() <-chan struct{} {
	*c.calls++
	if *c.calls > c.after {
		return c.closed
	}
	return c.open
}
func (c zzCtx) Err() error    { return nil }
func (c zzCtx) Value(any) any { return nil }

type zzAddrConn struct {
	zzNetConn
	addr *net.TCPAddr
}

func (c *zzAddrConn) RemoteAddr() net.Addr { return c.addr }

var zzLoopMethods = []base.Method{base.Teardown, base.Options, base.GetParameter, base.SetParameter, base.Pause}

var zzProtocols = []Protocol{ProtocolUDP, ProtocolUDPMulticast, ProtocolTCP}

// C02 (session lifetime decisions of the session's run loop, one event from an
// arbitrary state): the REAL ServerSession.runInner processes one event -
// a request, a connection going away, the UDP liveness check firing, a writer
// error - and the session ends iff the property says so:
//   - TEARDOWN accepted => ends (torn down), the connection is unpaired, the
//     response carries no Session header; TEARDOWN refused (arrives on another
//     connection than the pinned one) => answered with an error, session lives;
//   - any other request => exactly one response, session lives, accepted ones
//     carry the Session header with the session id, and the request counts as
//     a keep-alive (last request time = now);
//   - last connection gone => ends unless the session is streaming (play /
//     record) over UDP or multicast; not the last connection => lives;
//   - liveness check: record => ends iff no packet for ReadTimeout; play =>
//     ends iff neither a request nor a packet for IdleTimeout (second
//     granularity of the packet clock allowed for); otherwise re-armed;
//   - writer error => ends with that error.
func ZzC02SessionLoop() {
	h := &zzHandler{status: base.StatusNotFound}
	idle := zzIntIn("idleSec", 1, 100)
	rdto := zzIntIn("readSec", 1, 100)
	s := &Server{Handler: h, IdleTimeout: time.Duration(idle) * time.Second, ReadTimeout: time.Duration(rdto) * time.Second,
		checkStreamPeriod: time.Hour}
	nowSec := zzIntIn("nowSec", 1000000000, 2000000000)
	nowNsec := zzIntIn("nowNsec", 0, 999999999)
	now := time.Unix(int64(nowSec), int64(nowNsec))
	s.timeNow = func() time.Time { return now }

	st := ServerSessionState(zzConcretize(zzIntIn("state", 0, 4)))
	proto := zzProtocols[zzConcretize(zzIntIn("proto", 0, 2))]
	own := &ServerConn{s: s, nconn: &zzAddrConn{addr: &net.TCPAddr{IP: net.IP{10, 0, 0, 1}, Port: 1}}}
	other := &ServerConn{s: s, nconn: &zzAddrConn{addr: &net.TCPAddr{IP: net.IP{10, 0, 0, 2}, Port: 2}}}
	ctx := zzNewCtx(1)
	dReq := zzIntIn("sinceRequestSec", 0, 300)
	dPkt := zzIntIn("sincePacketSec", 0, 300)
	lastReq := time.Unix(int64(nowSec-dReq), int64(nowNsec))
	timerC := make(chan time.Time, 1)
	ss := &ServerSession{
		s: s, author: own, secretID: "abcdef", ctx: ctx, ctxCancel: func() {},
		conns: map[*ServerConn]struct{}{own: {}}, state: st, setuppedPath: "/registered",
		setuppedTransport:   &SessionTransport{Protocol: proto},
		lastRequestTime:     lastReq,
		udpCheckStreamTimer: &time.Timer{C: timerC},
		chHandleRequest:     make(chan sessionRequestReq, 1),
		chRemoveConn:        make(chan *ServerConn, 1),
		chAsyncStartWriter:  make(chan struct{}, 1),
		chWriterError:       make(chan error, 1),
	}
	ss.udpLastPacketTime.Store(int64(nowSec - dPkt))
	twoConns := zzBool("secondConnAttached")
	if twoConns {
		ss.conns[other] = struct{}{}
	}
	streaming := st == ServerSessionStatePlay || st == ServerSessionStateRecord

	ev := zzConcretize(zzIntIn("event", 0, 3))
	switch ev {
	case 0: // a request
		m := zzLoopMethods[zzConcretize(zzIntIn("method", 0, len(zzLoopMethods)-1))]
		pinnedElsewhere := zzBool("pinnedToOtherConn")
		if pinnedElsewhere {
			ss.tcpConn = other
		}
		resCh := make(chan sessionRequestRes, 1)
		req := &base.Request{Method: m, URL: &base.URL{Scheme: "rtsp", Host: "h", Path: "/registered/"}, Header: base.Header{}}
		ss.chHandleRequest <- sessionRequestReq{sc: own, req: req, res: resCh}
		err := ss.runInner()
		zzAssert(len(resCh) == 1, "exactly one answer is handed back for the request")
		if len(resCh) != 1 {
			return
		}
		r := <-resCh
		zzAssert(r.res != nil, "the answer carries a response")
		_, torn := err.(liberrors.ErrServerSessionTornDown)
		_, term := err.(liberrors.ErrServerTerminated)
		zzAssert(torn || term, "the loop ends only by TEARDOWN (or, here, by the harness's shutdown after one event)")
		accepted := r.err == nil || isSwitchReadFuncError(r.err)
		if pinnedElsewhere {
			zzAssert(!accepted && r.res.StatusCode >= 400, "a request from another connection than the pinned one is refused")
		}
		zzAssert(torn == (m == base.Teardown && accepted), "the session ends on an accepted TEARDOWN and on nothing else")
		if m == base.Teardown {
			zzAssert(accepted == !pinnedElsewhere, "TEARDOWN is accepted in every state from the session's own connection")
		}
		if torn {
			_, still := ss.conns[own]
			zzAssert(!still && r.ss == nil, "after TEARDOWN the connection is unpaired from the session")
			zzAssert(r.res.StatusCode == base.StatusOK, "TEARDOWN answered with 200")
		} else {
			zzAssert(ss.state == st || accepted, "a refused request leaves the state unchanged")
			if accepted {
				zzAssert(r.ss == ss, "the session stays attached")
				v, ok := r.res.Header["Session"]
				zzAssert(ok && len(v) == 1 && len(v[0]) >= 6 && v[0][:6] == "abcdef", "accepted requests carry the session id")
			}
		}
		zzAssert(ss.lastRequestTime.Equal(now), "every request on the session counts as a keep-alive")
		zzCover("teardown accepted", torn)
		zzCover("teardown refused", m == base.Teardown && !torn)
		zzCover("other request", m != base.Teardown && accepted)
		zzAssertMustFail(!torn, "twin: a TEARDOWN does end the session")

	case 1: // a connection goes away
		ss.chRemoveConn <- own
		err := ss.runInner()
		_, notInUse := err.(liberrors.ErrServerSessionNotInUse)
		_, term := err.(liberrors.ErrServerTerminated)
		zzAssert(notInUse || term, "no other way out")
		_, still := ss.conns[own]
		zzAssert(!still, "the connection is detached")
		want := !twoConns && !(streaming && proto != ProtocolTCP)
		zzAssert(notInUse == want, "the session ends when its last connection goes away, unless it is streaming over UDP / multicast")
		zzCover("ends", notInUse)
		zzCover("survives: streaming over UDP", !notInUse && !twoConns)
		zzCover("survives: streaming over multicast", !notInUse && !twoConns && proto == ProtocolUDPMulticast)
		zzAssertMustFail(!notInUse, "twin: the last connection does end an idle session")

	case 2: // the UDP liveness check fires
		timerC <- now
		err := ss.runInner()
		_, timedOut := err.(liberrors.ErrServerSessionTimedOut)
		_, term := err.(liberrors.ErrServerTerminated)
		zzAssert(timedOut || term, "no other way out")
		if st == ServerSessionStateRecord {
			// the packet clock has one-second granularity
			if dPkt >= rdto+1 {
				zzAssert(timedOut, "record: a peer silent for the read timeout is expired")
			}
			if dPkt <= rdto-1 {
				zzAssert(!timedOut, "record: a peer that sent media within the read timeout is not expired")
			}
		} else {
			if dPkt >= idle+1 && dReq >= idle {
				zzAssert(timedOut, "play: a peer silent on both paths for the idle timeout is expired")
			}
			if dPkt <= idle-1 || dReq < idle {
				zzAssert(!timedOut, "play: a peer that sent a request or a report within the idle timeout is not expired")
			}
		}
		if !timedOut {
			zzAssert(ss.udpCheckStreamTimer != nil && (<-chan time.Time)(timerC) != ss.udpCheckStreamTimer.C, "the check is re-armed")
		}
		zzCover("expired", timedOut)
		zzCover("kept", !timedOut)
		zzAssertMustFail(!timedOut, "twin: silence does expire the session")

	case 3: // the writer fails
		werr := errors.New("write failed")
		ss.chWriterError <- werr
		err := ss.runInner()
		zzAssert(err == werr, "a writer error ends the session with that error")
		zzCover("done", true)
	}
}

// C19 (author IP) + C02 (a session is closed once): Server.runInner, one event.
//   - find-or-create: a session is handed to a connection iff the connection's
//     IP address and zone equal those of the connection that created it; a
//     foreign connection gets an error and the session is not touched; an unknown
//     id creates a session only when creation was asked for;
//   - close-session: removes the session once; a second close request for the
//     same session (or for a session that took its id) is ignored.
func ZzC19ServerLoop() {
	s := &Server{Handler: &zzHandler{}}
	s.timeNow = time.Now
	ctx := zzNewCtx(1)
	s.ctx = ctx
	s.ctxCancel = func() {}
	authorIP, reqIP := zzIP("author"), zzIP("requester")
	zoneA, zoneB := zzString("zoneA", 0, 2), zzString("zoneB", 0, 2)
	author := &ServerConn{s: s, remoteAddr: &net.TCPAddr{IP: authorIP, Zone: zoneA}}
	reqc := &ServerConn{s: s, remoteAddr: &net.TCPAddr{IP: reqIP, Zone: zoneB}}
	cancelled := 0
	ss := &ServerSession{s: s, author: author, secretID: "abcdef", conns: map[*ServerConn]struct{}{author: {}},
		ctxCancel: func() { cancelled++ }}
	s.sessions = map[string]*ServerSession{"abcdef": ss}
	s.conns = map[*ServerConn]struct{}{author: {}, reqc: {}}
	s.chNewConn = make(chan net.Conn, 1)
	s.chAcceptErr = make(chan error, 1)
	s.chCloseConn = make(chan *ServerConn, 1)
	s.chHandleHTTPChannel = make(chan serverHandleHTTPChannelReq, 1)
	s.chFindOrCreateSession = make(chan serverFindOrCreateSessionReq, 1)
	s.chCloseSession = make(chan *ServerSession, 1)
	s.chGetMulticastIP = make(chan serverGetMulticastIPReq, 1)

	ev := zzConcretize(zzIntIn("event", 0, 2))
	switch ev {
	case 0: // known id
		resCh := make(chan serverFindOrCreateSessionRes, 1)
		s.chFindOrCreateSession <- serverFindOrCreateSessionReq{sc: reqc, id: "abcdef", create: zzBool("create"), res: resCh}
		err := s.runInner()
		_, term := err.(liberrors.ErrServerTerminated)
		zzAssert(term, "the server loop goes on")
		zzAssert(len(resCh) == 1, "exactly one answer")
		if len(resCh) != 1 {
			return
		}
		r := <-resCh
		same := zzTo16(authorIP) == zzTo16(reqIP) && zoneA == zoneB
		if same {
			zzAssert(r.err == nil && r.ss == ss, "the creator's address gets its session")
		} else {
			_, foreign := r.err.(liberrors.ErrServerCannotUseSessionCreatedByOtherIP)
			zzAssert(foreign && r.ss == nil, "a connection from another address never gets the session")
		}
		_, has := ss.conns[reqc]
		zzAssert(!has && len(ss.conns) == 1 && cancelled == 0, "finding a session does not touch it")
		zzAssert(len(s.sessions) == 1, "no session appears or disappears")
		zzCover("same address", same)
		zzCover("foreign address", !same)
		zzAssertMustFail(same, "twin: foreign addresses exist")
	case 1: // unknown id
		create := zzBool("create")
		resCh := make(chan serverFindOrCreateSessionRes, 1)
		s.chFindOrCreateSession <- serverFindOrCreateSessionReq{sc: reqc, id: "zzzzzz", create: create, res: resCh}
		if create {
			// creating starts the session's goroutine (not executed) - only the refusal is checked here
			return
		}
		_ = s.runInner()
		zzAssert(len(resCh) == 1, "exactly one answer")
		if len(resCh) != 1 {
			return
		}
		r := <-resCh
		_, nf := r.err.(liberrors.ErrServerSessionNotFound)
		zzAssert(nf && r.ss == nil && len(s.sessions) == 1, "an unknown session id is refused and creates nothing")
		zzCover("done", true)
	case 2: // close-session, possibly stale
		stale := zzBool("stale")
		target := ss
		if stale {
			target = &ServerSession{s: s, secretID: "abcdef", ctxCancel: func() { cancelled += 10 }}
		}
		s.chCloseSession <- target
		_ = s.runInner()
		if stale {
			zzAssert(len(s.sessions) == 1 && cancelled == 0, "a close request for a session that is no longer registered is ignored")
		} else {
			zzAssert(len(s.sessions) == 0 && cancelled == 1, "the session is removed and closed once")
		}
		zzCover("stale", stale)
		zzCover("live", !stale)
	}
}
