package gortsplib

import (
	"time"

	"github.com/pion/rtp"

	"github.com/bluenviron/gortsplib/v5/internal/asyncprocessor"
	"github.com/bluenviron/gortsplib/v5/pkg/format"
	"github.com/bluenviron/gortsplib/v5/pkg/rtpsender"
)

func zzPacket(P int) *rtp.Packet {
	pkt := &rtp.Packet{Header: rtp.Header{
		Version: 2, Marker: zzBool("marker"), PayloadType: zzU8("pt") & 0x7f,
		SequenceNumber: zzU16("seq"), Timestamp: zzU32("ts"), SSRC: zzU32("ssrc"),
	}}
	nc := zzConcretize(zzIntIn("ncsrc", 0, 2))
	for i := 0; i < nc; i++ {
		pkt.CSRC = append(pkt.CSRC, zzU32("csrc"))
	}
	pkt.Payload = zzBytes("payload", 0, P)
	// padding: none, through Header.PaddingSize, or through the older Packet.PaddingSize
	// field (pion's marshaller honours both)
	switch zzConcretize(zzIntIn("padmode", 0, zzParam("PADMODES", 2))) {
	case 1:
		pkt.Header.Padding = true
		pkt.Header.PaddingSize = uint8(zzIntIn("padsize", 1, 4))
	case 2:
		pkt.Header.Padding = true
		pkt.PaddingSize = uint8(zzIntIn("padsize", 1, 4))
	}
	return pkt
}

// size of the packet on the wire: RTP header + CSRC list + payload + padding
func zzWireSize(pkt *rtp.Packet) int {
	pad := int(pkt.Header.PaddingSize)
	if pad == 0 {
		pad = int(pkt.PaddingSize)
	}
	return 12 + 4*len(pkt.CSRC) + len(pkt.Payload) + pad
}

// C18 + C01 (client write path, plain RTP): a packet either is refused with an
// error and nothing is queued, or exactly one buffer of at most MaxPacketSize
// bytes is queued whose bytes parse back (pion) to the packet that was written,
// carrying the SSRC announced for the format.
func ZzC18ClientWriteRTP() {
	P := zzParam("P", 16)
	maxPS := zzIntIn("MaxPacketSize", 12, zzParam("MAXPS", 40))
	c := &Client{MaxPacketSize: maxPS}
	c.timeNow = func() time.Time { return time.Time{} }
	w := &asyncprocessor.Processor{BufferSize: 8}
	w.Initialize()
	c.writer = w
	cm := &clientMedia{c: c}
	var sent [][]byte
	local := zzU32("localSSRC")
	snd := &rtpsender.Sender{ClockRate: 90000, TimeNow: c.timeNow}
	snd.Initialize()
	cf := &clientFormat{cm: cm, format: &format.Generic{PayloadTyp: 96, RTPMa: "private/90000", ClockRat: 90000}, localSSRC: local, rtpSender: snd}
	cf.writePacketRTPInQueue = func(b []byte) error {
		sent = append(sent, b)
		return nil
	}
	pkt := zzPacket(P)
	want := *pkt
	wantPayload := append([]byte(nil), pkt.Payload...)
	size := zzWireSize(pkt)
	err := cf.writePacketRTP(pkt, time.Time{})
	n, derr := w.ZzDrain()
	zzAssert(derr == nil, "queued writes run without error")
	if err != nil {
		zzAssert(n == 0, "a refused write transmits nothing")
		zzAssert(size > maxPS, "a packet within the limit is not refused")
	} else {
		zzAssert(n == 1, "an accepted write is queued exactly once")
		zzAssert(size <= maxPS, "a packet above the limit is refused")
		if len(sent) == 1 {
			b := sent[0]
			zzAssert(len(b) <= maxPS, "transmitted packet <= MaxPacketSize")
			zzAssert(len(b) == size, "transmitted size = header + CSRC + payload + padding")
			var got rtp.Packet
			uerr := got.Unmarshal(b)
			zzAssert(uerr == nil, "transmitted bytes are a valid RTP packet")
			if uerr == nil {
				zzAssert(got.SSRC == local, "SSRC on the wire is the one announced for the format")
				zzAssert(got.SequenceNumber == want.SequenceNumber, "sequence number preserved")
				zzAssert(got.Timestamp == want.Timestamp, "timestamp preserved")
				zzAssert(got.Marker == want.Marker, "marker preserved")
				zzAssert(got.PayloadType == want.PayloadType, "payload type preserved")
				zzAssert(zzBytesEq(got.Payload, wantPayload), "payload preserved")
			}
		}
	}
	zzCover("accepted", err == nil)
	zzCover("refused", err != nil)
	zzAssertMustFail(err == nil, "twin: every packet accepted")
}
