package gortsplib

import (
	"bufio"
	"bytes"
	"encoding/base64"
	"net"
	"time"

	"github.com/bluenviron/gortsplib/v5/pkg/auth"
	"github.com/bluenviron/gortsplib/v5/pkg/base"
	"github.com/bluenviron/gortsplib/v5/pkg/conn"
	"github.com/bluenviron/gortsplib/v5/pkg/liberrors"
)

// application that reports an authentication failure on DESCRIBE
type zzAuthHandler struct{}

func (zzAuthHandler) OnDescribe(*ServerHandlerOnDescribeCtx) (*base.Response, *ServerStream, error) {
	return &base.Response{StatusCode: base.StatusUnauthorized}, nil, liberrors.ErrServerAuth{}
}

// C10 (401 vs end of connection): when the application reports an
// authentication failure, a request WITHOUT credentials (no Authorization
// header, an unparsable one, or one with an empty user name) is answered with
// 401 plus one WWW-Authenticate challenge per enabled method and the
// connection goes on (handleRequestOuter returns nil); a request WITH
// credentials is answered and the connection ends (ErrServerAuth returned).
func ZzC10AuthError() {
	nc := &zzNetConn{}
	methods := [][]auth.VerifyMethod{
		{auth.VerifyMethodBasic}, {auth.VerifyMethodDigestMD5}, {auth.VerifyMethodDigestSHA256, auth.VerifyMethodBasic},
		{auth.VerifyMethodBasic, auth.VerifyMethodDigestMD5, auth.VerifyMethodDigestSHA256},
	}[zzConcretize(zzIntIn("enabled", 0, 3))]
	s := &Server{Handler: zzAuthHandler{}, WriteTimeout: time.Second, AuthMethods: methods}
	s.timeNow = time.Now
	sc := &ServerConn{s: s, nconn: nc, remoteAddr: &net.TCPAddr{IP: net.IP{127, 0, 0, 1}}, authNonce: "abcd"}
	sc.conn = conn.NewConn(bufio.NewReader(bytes.NewReader(nil)), nc)
	req := &base.Request{Method: base.Describe, URL: &base.URL{Scheme: "rtsp", Host: "h", Path: "/p"}, Header: base.Header{"CSeq": base.HeaderValue{"3"}}}
	provided := false
	switch zzConcretize(zzIntIn("authorization", 0, 4)) {
	case 1:
		// Basic
		// (user / password from small sets: base64 of symbolic text only slows the solver
		// down, what matters here is whether a user name is present)
		u := []string{"", "u", "us:er"}[zzConcretize(zzIntIn("user", 0, 2))]
		p := []string{"", "p", "pa:ss"}[zzConcretize(zzIntIn("pass", 0, 2))]
		req.Header["Authorization"] = base.HeaderValue{"Basic " + base64.StdEncoding.EncodeToString([]byte(u+":"+p))}
		provided = u != ""
	case 2:
		// Digest with symbolic user
		u := zzURLText("user", 0, 2)
		req.Header["Authorization"] = base.HeaderValue{`Digest username="` + u + `", realm="r", nonce="abcd", uri="rtsp://h/p", response="00"`}
		provided = u != ""
	case 3:
		req.Header["Authorization"] = base.HeaderValue{"Bearer " + zzURLText("token", 1, 2)}
	case 4:
		req.Header["Authorization"] = base.HeaderValue{"Basic " + zzURLText("notbase64", 1, 1)}
	}
	err := sc.handleRequestOuter(req)
	zzAssert(len(nc.writes) == 1, "exactly one response is written")
	if len(nc.writes) == 1 {
		var res base.Response
		uerr := res.Unmarshal(bufio.NewReader(bytes.NewReader(nc.writes[0])))
		zzAssert(uerr == nil, "the response is well formed")
		if uerr == nil {
			zzAssert(res.StatusCode == base.StatusUnauthorized, "authentication failure is answered with 401")
			if !provided {
				zzAssert(len(res.Header["WWW-Authenticate"]) == len(methods), "one challenge per enabled method")
			}
		}
	}
	// the challenge does not invalidate earlier challenges on this connection: the
	// nonce stays the one already issued, and it is the one in the new challenge
	zzAssert(sc.authNonce == "abcd", "a challenge keeps the connection's nonce (credentials computed for an earlier challenge stay valid)")
	if provided {
		_, isAuth := err.(liberrors.ErrServerAuth)
		zzAssert(isAuth, "wrong credentials end the connection")
	} else {
		zzAssert(err == nil, "a request without credentials is challenged and the connection kept")
	}
	zzCover("credentials provided", provided)
	zzCover("no credentials", !provided)
}

// C10 (nonce issued before it is checked): VerifyCredentials on a connection
// that has not challenged anybody yet first creates the nonce; an authorization
// computed for the empty nonce is therefore never accepted, and afterwards the
// connection has a non-empty nonce.
func ZzC10NonceIssued() {
	s := &Server{AuthMethods: []auth.VerifyMethod{auth.VerifyMethodDigestMD5}}
	sc := &ServerConn{s: s, remoteAddr: &net.TCPAddr{IP: net.IP{127, 0, 0, 1}}}
	req := &base.Request{Method: base.Describe, URL: &base.URL{Scheme: "rtsp", Host: "h", Path: "/p"}, Header: base.Header{}}
	se := &auth.Sender{WWWAuth: auth.GenerateWWWAuthenticate(s.AuthMethods, serverAuthRealm, ""), User: "u", Pass: "p"}
	zzAssert(se.Initialize() == nil, "sender initialises on a challenge with an empty nonce")
	se.AddAuthorization(req)
	ok := sc.VerifyCredentials(req, "u", "p")
	zzAssert(sc.authNonce != "", "the connection has a nonce after the first verification")
	zzAssert(!ok, "credentials computed for a nonce the server never issued are not accepted")
	zzCover("done", true)
}
