package gortsplib

import (
	"strconv"

	"github.com/bluenviron/gortsplib/v5/pkg/base"
	"github.com/bluenviron/gortsplib/v5/pkg/description"
)

// text that is legal, unescaped, in an RTSP URL path: letters, digits, the
// unreserved marks and the sub-delimiters of RFC 3986 ("!$&'()*+,;=" and
// "-._~:"; '@' is left out: the credential pre-filter of base.ParseURL is a regexp), which a client may send as they are
func zzPathText(name string, min, max int) string {
	s := zzString(name, min, max)
	ok := true
	for i := 0; i < max; i++ {
		c := zzSAt(s, i)
		alnum := zzOr(zzAnd(c >= '0', c <= '9'), zzOr(zzAnd(c >= 'a', c <= 'z'), zzAnd(c >= 'A', c <= 'Z')))
		marks := zzOr(zzOr(zzOr(c == '-', c == '.'), zzOr(c == '_', c == '~')), c == ':')
		sub := zzOr(zzOr(zzOr(c == '!', c == '$'), zzOr(c == '&', c == '\'')), zzOr(zzOr(c == '(', c == ')'), zzOr(zzOr(c == '*', c == '+'), zzOr(c == ',', zzOr(c == ';', c == '=')))))
		ok = zzAnd(ok, zzImplies(i < len(s), zzOr(alnum, zzOr(marks, sub))))
	}
	zzAssume(ok)
	return s
}

// C20 (record side: ANNOUNCE then SETUP, real code on both sides): the client
// announces to the stream URL, numbers its medias "trackID=i"
// (prepareForAnnounce) and sends SETUP to description.Media.URL(stream URL);
// the server remembers path and query of the ANNOUNCE (getPathAndQuery) and
// resolves the SETUP URL with findMediaByURL. For every path made of
// characters that are legal in a URL path, with or without a query, the SETUP
// reaches the media it was issued for, and the handlers saw the stream's path
// and query.
func ZzC20RecordSetup() {
	path := "/" + zzPathText("seg", 1, zzParam("PL", 2))
	if zzBool("twoSegments") {
		path += "/" + zzPathText("seg2", 1, 1)
	}
	query := ""
	if zzBool("withQuery") {
		query = zzURLText("query", 1, zzParam("QL", 2))
	}
	raw := "rtsp://host:8554" + path
	if query != "" {
		raw += "?" + query
	}
	u, err := base.ParseURL(raw)
	zzAssert(err == nil, "stream URL parses")
	if err != nil {
		return
	}
	ap, aq := getPathAndQuery(u, true)
	zzAssert(ap == path, "ANNOUNCE: handler sees the path of the stream URL")
	zzAssert(aq == query, "ANNOUNCE: handler sees the query of the stream URL")
	medias := []*description.Media{{Control: "trackID=0"}, {Control: "trackID=1"}, {Control: "trackID=2"}}
	n := zzConcretize(zzIntIn("track", 0, 2))
	mu, err := medias[n].URL(u)
	zzAssert(err == nil && mu != nil, "client resolves the media URL")
	if err != nil || mu == nil {
		return
	}
	// the URL travels as text
	wire, err := base.ParseURL(mu.String())
	zzAssert(err == nil, "SETUP URL parses on the server")
	if err != nil {
		return
	}
	got := findMediaByURL(medias, ap, aq, wire)
	zzAssert(got == medias[n], "SETUP (record) reaches the media it was issued for")
	zzCover("with query", query != "")
	zzCover("without query", query == "")
	zzAssertMustFail(got != medias[0], "twin: track 0 is reachable")
	_ = strconv.Itoa
}
