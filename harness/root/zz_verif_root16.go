package gortsplib

import (
	"net/url"
	"strconv"

	"github.com/pion/sdp/v3"

	"github.com/bluenviron/gortsplib/v5/pkg/base"
	"github.com/bluenviron/gortsplib/v5/pkg/description"
)

// URL-safe text: letters, digits and the punctuation that needs no escaping
// in a path or a query ('=', '&', '.', '-', '_')
func zzURLText(name string, min, max int) string {
	s := zzString(name, min, max)
	ok := true
	for i := 0; i < max; i++ {
		c := zzSAt(s, i)
		alnum := zzOr(zzAnd(c >= '0', c <= '9'), zzOr(zzAnd(c >= 'a', c <= 'z'), zzAnd(c >= 'A', c <= 'Z')))
		punct := zzOr(zzOr(c == '=', c == '&'), zzOr(c == '.', zzOr(c == '-', c == '_')))
		ok = zzAnd(ok, zzImplies(i < len(s), zzOr(alnum, punct)))
	}
	zzAssume(ok)
	return s
}

// C20 (client resolution and server analysis are mutually inverse, through the
// REAL code on both sides): the stream URL is parsed (real net/url), the server
// announces Content-Base = URL + "/" and control "trackID=n"
// (server_conn.go / server_stream.go), the client resolves the media URL with
// the real description.Media.URL, and the server analyses that URL with the real
// getPathAndQueryAndTrackID: it sees exactly the path and query of the stream
// URL and track n. Path = "/" + PL symbolic URL-safe bytes (optionally two
// segments), query absent or QL symbolic URL-safe bytes.
func ZzC20ClientServerPair() {
	path := "/" + zzURLText("seg", 1, zzParam("PL", 2))
	if zzBool("twoSegments") {
		path += "/" + zzURLText("seg2", 1, 1)
	}
	if zzParam("LOOK", 0) == 1 {
		// a path segment that looks like a track selector
		path += "/trackID=" + strconv.Itoa(zzConcretize(zzIntIn("inner", 0, 2)))
		if zzBool("moreAfter") {
			path += "/" + zzURLText("seg3", 1, 1)
		}
	}
	query := ""
	if zzBool("withQuery") {
		query = zzURLText("query", 1, zzParam("QL", 2))
	}
	raw := "rtsp://host:8554" + path
	if query != "" {
		raw += "?" + query
	}
	u, err := base.ParseURL(raw)
	zzAssert(err == nil, "stream URL parses")
	if err != nil {
		return
	}
	// what the server puts into the DESCRIBE response
	cb, err := base.ParseURL(u.String() + "/")
	zzAssert(err == nil, "Content-Base parses on the client")
	if err != nil {
		return
	}
	n := zzConcretize(zzIntIn("track", 0, 2))
	m := description.Media{Control: "trackID=" + strconv.Itoa(n)}
	mu, err := m.URL(cb)
	zzAssert(err == nil && mu != nil, "client resolves the media URL")
	if err != nil || mu == nil {
		return
	}
	p, q, tid, err := getPathAndQueryAndTrackID(mu)
	zzAssert(err == nil, "server analyses the SETUP URL")
	zzAssert(p == path, "SETUP: handler sees the path of the stream URL")
	zzAssert(q == query, "SETUP: handler sees the query of the stream URL")
	zzAssert(tid == strconv.Itoa(n), "SETUP reaches the track it was issued for")
	// PLAY / PAUSE / TEARDOWN are sent to the Content-Base
	p2, q2 := getPathAndQuery(cb, false)
	zzAssert(p2 == path, "PLAY: path of the stream URL")
	zzAssert(q2 == query, "PLAY: query of the stream URL")
	zzCover("with query", query != "")
	zzCover("without query", query == "")
}

// C20 (credentials never appear in a request line): a request whose URL carries
// user-info (symbolic user and password) is marshalled with exactly the bytes
// of the same request without user-info.
func ZzC20NoCredentials() {
	u, err := base.ParseURL("rtsp://host:8554/path/sub?key=val")
	zzAssert(err == nil, "url parses")
	withCreds := *u
	user := zzURLText("user", 1, 2)
	if zzBool("withPassword") {
		withCreds.User = url.UserPassword(user, zzURLText("pass", 0, 2))
	} else {
		withCreds.User = url.User(user)
	}
	mi := zzConcretize(zzIntIn("method", 0, len(zzAllMethods)-1))
	a := base.Request{Method: zzAllMethods[mi], URL: &withCreds, Header: base.Header{"CSeq": base.HeaderValue{"1"}}}
	b := base.Request{Method: zzAllMethods[mi], URL: u, Header: base.Header{"CSeq": base.HeaderValue{"1"}}}
	ba, err := a.Marshal()
	zzAssert(err == nil, "request with credentials marshals")
	bb, err := b.Marshal()
	zzAssert(err == nil, "request without credentials marshals")
	zzAssert(zzBytesEq(ba, bb), "the request line carries no user-info")
	zzAssert(withCreds.User != nil, "the caller's URL keeps its credentials (they are needed for authentication)")
	c := withCreds.CloneWithoutCredentials()
	zzAssert(c.User == nil && c.Host == u.Host && c.Path == u.Path && c.RawQuery == u.RawQuery && c.Scheme == u.Scheme, "CloneWithoutCredentials drops only the user-info")
	zzCover("done", true)
}

var zzAllMethods = []base.Method{base.Announce, base.Describe, base.GetParameter, base.Options, base.Pause, base.Play, base.Record, base.Setup, base.SetParameter, base.Teardown}

// C20 (base URL choice on the client): the same pair property with the base
// URL chosen by the real findBaseURL from the DESCRIBE response: absolute
// Content-Base (what the library server sends), relative Content-Base (path
// and query only, some cameras), or no Content-Base at all.
func ZzC20FindBaseURL() {
	path := "/" + zzURLText("seg", 1, zzParam("PL", 2))
	query := ""
	if zzBool("withQuery") {
		query = zzURLText("query", 1, zzParam("QL", 2))
	}
	raw := "rtsp://host:8554" + path
	rel := path
	if query != "" {
		raw += "?" + query
		rel += "?" + query
	}
	u, err := base.ParseURL(raw)
	zzAssert(err == nil, "stream URL parses")
	if err != nil {
		return
	}
	res := &base.Response{StatusCode: base.StatusOK, Header: base.Header{}}
	kind := zzConcretize(zzIntIn("contentBase", 0, 2))
	switch kind {
	case 0:
		res.Header["Content-Base"] = base.HeaderValue{u.String() + "/"}
	case 1:
		res.Header["Content-Base"] = base.HeaderValue{rel + "/"}
	}
	bu, err := findBaseURL(&sdp.SessionDescription{}, res, u)
	zzAssert(err == nil && bu != nil, "client finds a base URL")
	if err != nil || bu == nil {
		return
	}
	n := zzConcretize(zzIntIn("track", 0, 2))
	m := description.Media{Control: "trackID=" + strconv.Itoa(n)}
	mu, err := m.URL(bu)
	zzAssert(err == nil && mu != nil, "client resolves the media URL")
	if err != nil || mu == nil {
		return
	}
	p, q, tid, err := getPathAndQueryAndTrackID(mu)
	zzAssert(err == nil, "server analyses the SETUP URL")
	zzAssert(p == path, "SETUP: handler sees the path of the stream URL")
	zzAssert(q == query, "SETUP: handler sees the query of the stream URL")
	zzAssert(tid == strconv.Itoa(n), "SETUP reaches the track it was issued for")
	zzCover("relative content base", kind == 1)
	zzCover("no content base", kind == 2)
}
