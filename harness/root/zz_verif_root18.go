package gortsplib

import (
	"time"

	"github.com/pion/rtcp"

	"github.com/bluenviron/gortsplib/v5/pkg/description"
	"github.com/bluenviron/gortsplib/v5/pkg/format"
)

// C12 (the client never panics on unsolicited or malformed media frames): for
// every combination of client state (about to play / about to record), media
// direction (normal / back channel) and transport (interleaved / UDP), the
// read callbacks installed by the real clientMedia.initialize accept ARBITRARY
// bytes on the RTP and on the RTCP channel without panicking - in particular an
// RTP frame arriving on a media the client only sends on.
func ZzC12ClientMediaFrames() {
	c := &Client{}
	c.timeNow = func() time.Time { return time.Unix(1700000000, 0) }
	c.receiverReportPeriod = time.Second
	c.senderReportPeriod = time.Second
	c.OnPacketsLost = func(uint64) {}
	c.OnDecodeError = func(error) {}
	if zzBool("recording") {
		c.state = clientStatePreRecord
	} else {
		c.state = clientStatePrePlay
	}
	forma := &format.Generic{PayloadTyp: 96, RTPMa: "private/90000", ClockRat: 90000}
	medi := &description.Media{Type: description.MediaTypeVideo, IsBackChannel: zzBool("backChannel"), Formats: []format.Format{forma}}
	cm := &clientMedia{c: c, media: medi, tcpChannel: 2, localSSRCs: map[uint8]uint32{96: 7}}
	udp := zzBool("udp")
	if udp {
		cm.udpRTPListener = &clientUDPListener{c: c}
		cm.udpRTCPListener = &clientUDPListener{c: c}
	}
	cm.initialize()
	frame := zzBytes("frame", 0, zzParam("P", 14))
	// a valid RTP header for the media's payload type is the interesting case
	if zzBool("validHeader") {
		zzAssume(len(frame) >= 12)
		zzAssume(frame[0] == 0x80)
		zzAssume(frame[1]&0x7f == 96)
	}
	var rtpCb, rtcpCb readFunc
	if udp {
		rtpCb, rtcpCb = cm.udpRTPListener.readFunc, cm.udpRTCPListener.readFunc
	} else {
		rtpCb, rtcpCb = c.tcpCallbackByChannel[2], c.tcpCallbackByChannel[3]
	}
	zzAssert(rtpCb != nil && rtcpCb != nil, "both channels of the media have a read callback")
	if zzBool("onRTCPChannel") {
		// (a well-formed report with symbolic fields: pion's RTCP error paths use
		// reflection, which the engine does not execute)
		rr := &rtcp.ReceiverReport{SSRC: zzU32("ssrc"), Reports: []rtcp.ReceptionReport{{SSRC: zzU32("rssrc"), LastSequenceNumber: zzU32("lsn")}}}
		b, err := rr.Marshal()
		zzAssert(err == nil, "report marshals")
		rtcpCb(b)
	} else {
		rtpCb(frame)
	}
	zzCover("done", true)
}
