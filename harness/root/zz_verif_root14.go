package gortsplib

import (
	"strings"

	"github.com/bluenviron/gortsplib/v5/pkg/description"
	"github.com/bluenviron/gortsplib/v5/pkg/format"
)

// C20 (each SETUP reaches the media it was issued for, server side): for a
// stream of 1..N medias of which any subset are back channels, the description
// handed out by DESCRIBE - with back channels requested or not - gives every
// media a control attribute "trackID=k" such that the server's own lookup
// (findMediaByTrackID on the stream's medias, as done by SETUP) returns exactly
// the media the entry describes.
func ZzC20DescribeControl() {
	N := zzConcretize(zzIntIn("nmedias", 1, zzParam("N", 3)))
	s := &Server{}
	st := &ServerStream{Server: s, Desc: &description.Session{}, medias: map[*description.Media]*serverStreamMedia{}}
	for i := 0; i < N; i++ {
		// distinct payload types tell the medias apart
		forma := &format.Generic{PayloadTyp: uint8(96 + i), RTPMa: "private/90000", ClockRat: 90000}
		medi := &description.Media{Type: description.MediaTypeVideo, IsBackChannel: zzBool("backchannel"), Formats: []format.Format{forma}}
		st.Desc.Medias = append(st.Desc.Medias, medi)
		sm := &serverStreamMedia{st: st, media: medi, formats: map[uint8]*serverStreamFormat{}}
		sm.formats[forma.PayloadTyp] = &serverStreamFormat{ssm: sm, format: forma, formatForDesc: forma}
		st.medias[medi] = sm
	}
	withBack := zzBool("backChannelsRequested")
	out, err := st.descForDescribe(false, withBack)
	zzAssert(err == nil, "description is produced")
	want := 0
	for _, m := range st.Desc.Medias {
		if !m.IsBackChannel || withBack {
			want++
		}
	}
	zzAssert(len(out.Medias) == want, "one entry per media offered (back channels only when requested)")
	for _, om := range out.Medias {
		zzAssert(strings.HasPrefix(om.Control, "trackID="), "control attribute has the trackID= form")
		tid := strings.TrimPrefix(om.Control, "trackID=")
		got := findMediaByTrackID(st.Desc.Medias, tid)
		zzAssert(got != nil, "the announced track id resolves to a media")
		if got != nil {
			zzAssert(got.Formats[0].PayloadType() == om.Formats[0].PayloadType(), "SETUP with the announced control reaches the media that the entry describes")
			zzAssert(got.IsBackChannel == om.IsBackChannel, "back-channel flag of the resolved media matches the entry")
		}
	}
	zzCover("a back channel skipped before another media", want < N)
	zzCover("all medias offered", want == N)
}
