package gortsplib

import (
	"crypto/tls"
	"strconv"

	"github.com/bluenviron/gortsplib/v5/pkg/base"
	"github.com/bluenviron/gortsplib/v5/pkg/description"
	"github.com/bluenviron/gortsplib/v5/pkg/headers"
)

// ---------------------------------------------------------------- C20

// a stream path: "/" + 1..n bytes, not ending in "/" (any other byte allowed,
// including '=', '&' and pieces that look like "trackID=")
func zzPath(n int) string {
	p := zzString("path", 1, n)
	zzAssume(zzSAt(p, len(p)-1) != '/')
	return "/" + p
}

func zzQuery(n int) string {
	q := zzString("query", 0, n)
	if len(q) > 0 {
		zzAssume(zzSAt(q, len(q)-1) != '/')
	}
	return q
}

// The URL a library client forms for SETUP of track n (control "trackID=n"
// against Content-Base = URL + "/") is analysed by the server into exactly the
// original path, query and n; and the URL it uses for PLAY/PAUSE (the base URL
// with the trailing slash) into the original path and query.
func ZzC20Split() {
	path := zzPath(zzParam("PL", 6))
	query := zzQuery(zzParam("QL", 6))
	n := zzConcretize(zzIntIn("track", 0, 9))
	ctl := "trackID=" + strconv.Itoa(n)
	var setup, play *base.URL
	if query != "" {
		// FFmpeg layout
		setup = &base.URL{Scheme: "rtsp", Host: "h", Path: path, RawQuery: query + "/" + ctl}
		play = &base.URL{Scheme: "rtsp", Host: "h", Path: path, RawQuery: query + "/"}
	} else {
		// GStreamer layout
		setup = &base.URL{Scheme: "rtsp", Host: "h", Path: path + "/" + ctl}
		play = &base.URL{Scheme: "rtsp", Host: "h", Path: path + "/"}
	}
	p, q, tid, err := getPathAndQueryAndTrackID(setup)
	zzAssert(err == nil, "setup URL is analysed")
	zzAssert(p == path, "setup: handler sees the original path")
	zzAssert(q == query, "setup: handler sees the original query")
	zzAssert(tid == strconv.Itoa(n), "setup: track id")
	medias := make([]*description.Media, 10)
	for i := range medias {
		medias[i] = &description.Media{}
	}
	if err == nil {
		m := findMediaByTrackID(medias, tid)
		zzAssert(m == medias[n], "setup reaches the media it was issued for")
	}
	p2, q2 := getPathAndQuery(play, false)
	zzAssert(p2 == path, "play: handler sees the original path")
	zzAssert(q2 == query, "play: handler sees the original query")
	// DESCRIBE / ANNOUNCE use the URL as it is
	plain := &base.URL{Scheme: "rtsp", Host: "h", Path: path, RawQuery: query}
	p3, q3 := getPathAndQuery(plain, true)
	zzAssert(p3 == path, "announce: path")
	zzAssert(q3 == query, "announce: query")
	p4, q4 := getPathAndQuery(plain, false)
	zzAssert(p4 == path, "describe: path")
	zzAssert(q4 == query, "describe: query")
	zzCover("with query", query != "")
	zzCover("without query", query == "")
	zzAssertMustFail(query == "", "twin: never a query")
}

// ---------------------------------------------------------------- C17

// transport admission: accepted <=> reference rule
func ZzC17Admission() {
	s := &Server{}
	if zzBool("udpListeners") {
		s.udpRTPListener = &serverUDPListener{}
	}
	if zzBool("multicastRange") {
		s.MulticastIPRange = "224.1.0.0/16"
	}
	tlsOn := zzBool("tls")
	if tlsOn {
		s.TLSConfig = &tls.Config{}
	}
	sc := &ServerConn{s: s}
	tun := zzConcretize(zzIntIn("tunnel", 0, 2))
	sc.tunnel = Tunnel(tun)
	tr := &headers.Transport{}
	secure := zzBool("secureProfile")
	if secure {
		tr.Profile = headers.TransportProfileSAVP
	} else {
		tr.Profile = headers.TransportProfileAVP
	}
	udp := zzBool("udp")
	if udp {
		tr.Protocol = headers.TransportProtocolUDP
	} else {
		tr.Protocol = headers.TransportProtocolTCP
	}
	multicast := false
	switch zzConcretize(zzIntIn("delivery", 0, 2)) {
	case 1:
		d := headers.TransportDeliveryUnicast
		tr.Delivery = &d
	case 2:
		d := headers.TransportDeliveryMulticast
		tr.Delivery = &d
		multicast = true
	}
	got := isTransportSupported(sc, tr)
	// reference rule
	want := true
	if secure && !tlsOn {
		want = false // keys would travel in clear
	}
	if udp {
		if !secure && tlsOn {
			want = false // unencrypted UDP media on an RTSPS session
		}
		if sc.tunnel != TunnelNone {
			want = false // UDP cannot go through a tunnel
		}
		if multicast && s.MulticastIPRange == "" {
			want = false
		}
		if !multicast && s.udpRTPListener == nil {
			want = false
		}
	}
	zzAssert(got == want, "transport admitted exactly when the reference rule admits it")
	zzCover("admitted", got)
	zzCover("refused", !got)
	zzAssertMustFail(got, "twin: every transport is admitted")
	// first supported transport in client order
	tr2 := headers.Transport{Profile: headers.TransportProfileAVP, Protocol: headers.TransportProtocolTCP}
	picked := pickFirstSupportedTransport(sc, headers.Transports{*tr, tr2})
	if want {
		zzAssert(picked != nil && picked.Protocol == tr.Protocol && picked.Profile == tr.Profile, "first supported transport wins")
	} else {
		// plain RTP over the (possibly TLS-protected) interleaved connection is always admissible
		zzAssert(picked != nil && picked.Protocol == headers.TransportProtocolTCP && picked.Profile == headers.TransportProfileAVP, "falls through to the next supported transport")
	}
	// a lone unsupported transport yields nothing
	if !want {
		zzAssert(pickFirstSupportedTransport(sc, headers.Transports{*tr}) == nil, "nothing supported: no transport picked")
	}
}

// ---------------------------------------------------------------- C18 (start-up validation)

func ZzC18ServerStart() {
	wq := zzInt("WriteQueueSize")
	mps := zzInt("MaxPacketSize")
	s := &Server{WriteQueueSize: wq, MaxPacketSize: mps}
	err := s.Start() // RTSPAddress is empty: Start stops right after the validation of the parameters
	zzAssert(err != nil, "start without address fails")
	passed := err.Error() == "RTSPAddress not provided"
	if passed {
		zzAssert(zzOr(wq == 0, zzAnd(wq > 0, wq&(wq-1) == 0)), "server: a write queue size that is not a power of two is rejected at start")
		zzAssert(mps <= 1472, "server: a maximum packet size above 1472 is rejected at start")
		zzAssert(s.MaxPacketSize <= 1472, "server: effective maximum packet size <= 1472")
	} else {
		zzAssert(zzOr(zzOr(wq < 0, wq&(wq-1) != 0), mps > 1472), "server: valid parameters are not rejected")
	}
	zzCover("validation passed", passed)
	zzCover("validation failed", !passed)
}

func ZzC18ClientStart() {
	wq := zzInt("WriteQueueSize")
	mps := zzInt("MaxPacketSize")
	c := &Client{WriteQueueSize: wq, MaxPacketSize: mps}
	// the limit holds for whatever transport the application asks for
	switch zzConcretize(zzIntIn("protocol", 0, 3)) {
	case 1:
		c.Protocol = new(ProtocolUDP)
	case 2:
		c.Protocol = new(ProtocolUDPMulticast)
	case 3:
		c.Protocol = new(ProtocolTCP)
	}
	err := c.Start()
	if err == nil {
		zzAssert(zzOr(wq == 0, zzAnd(wq > 0, wq&(wq-1) == 0)), "client: a write queue size that is not a power of two is rejected at start")
		zzAssert(mps <= 1472, "client: a maximum packet size above 1472 is rejected at start")
		zzAssert(c.MaxPacketSize <= 1472, "client: effective maximum packet size <= 1472")
	} else {
		zzAssert(zzOr(zzOr(wq < 0, wq&(wq-1) != 0), mps > 1472), "client: valid parameters are not rejected")
	}
	zzCover("validation passed", err == nil)
	zzCover("validation failed", err != nil)
}

// C20, paths with a segment that looks like "trackID=n" (the property lists
// them explicitly): /<pre>/trackID=<k>/<suf> with and without a query.
func ZzC20SplitLookalike() {
	k := zzConcretize(zzIntIn("inner", 0, 9))
	pre := zzString("pre", 0, 2)
	suf := zzString("suf", 1, 2)
	ok := true
	for i := 0; i < 2; i++ {
		ok = zzAnd(ok, zzImplies(i < len(pre), zzSAt(pre, i) != '/'))
		ok = zzAnd(ok, zzImplies(i < len(suf), zzSAt(suf, i) != '/'))
	}
	zzAssume(ok)
	path := "/" + pre + "/trackID=" + strconv.Itoa(k) + "/" + suf
	if zzBool("atStart") {
		path = "/trackID=" + strconv.Itoa(k) + "/" + suf
	}
	query := ""
	if zzBool("withQuery") {
		query = "a=" + zzString("qv", 1, 2)
		zzAssume(zzSAt(query, len(query)-1) != '/')
	}
	n := zzConcretize(zzIntIn("track", 0, 9))
	ctl := "trackID=" + strconv.Itoa(n)
	var setup, play *base.URL
	if query != "" {
		setup = &base.URL{Scheme: "rtsp", Host: "h", Path: path, RawQuery: query + "/" + ctl}
		play = &base.URL{Scheme: "rtsp", Host: "h", Path: path, RawQuery: query + "/"}
	} else {
		setup = &base.URL{Scheme: "rtsp", Host: "h", Path: path + "/" + ctl}
		play = &base.URL{Scheme: "rtsp", Host: "h", Path: path + "/"}
	}
	p, q, tid, err := getPathAndQueryAndTrackID(setup)
	zzAssert(err == nil, "lookalike: setup URL is analysed")
	zzAssert(p == path, "lookalike: handler sees the original path")
	zzAssert(q == query, "lookalike: handler sees the original query")
	zzAssert(tid == strconv.Itoa(n), "lookalike: track id")
	p2, q2 := getPathAndQuery(play, false)
	zzAssert(p2 == path, "lookalike play: path")
	zzAssert(q2 == query, "lookalike play: query")
	zzCover("with query", query != "")
	zzCover("without query", query == "")
}
