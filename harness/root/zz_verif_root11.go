package gortsplib

import "github.com/bluenviron/gortsplib/v5/pkg/mikey"

// C17 (key management, no cryptography): the SRTP parameters a side offers
// through MIKEY — master key and salt, MKI, SSRC list and roll-over counters —
// are exactly the ones the other side builds its context from, after the real
// contextToMikey -> Message.Marshal -> Unmarshal -> mikeyToContext chain.
func ZzC17MikeyContext() {
	key := zzBytes("key", srtpKeyLength, srtpKeyLength)
	ctx := &wrappedSRTPContext{key: key}
	withMKI := zzBool("withMKI")
	if withMKI {
		ctx.mki = zzBytes("mki", 4, 4)
	}
	n := zzConcretize(zzIntIn("nssrc", 1, zzParam("NSSRC", 3)))
	// the first k SSRCs have roll-over state (they have sent or were given a
	// starting counter), the others have none yet: their counter is 0
	k := zzConcretize(zzIntIn("nwithroc", 0, n))
	want := make([]uint32, n)
	for i := 0; i < n; i++ {
		ctx.ssrcs = append(ctx.ssrcs, zzU32("ssrc"))
		if i < k {
			ctx.startROCs = append(ctx.startROCs, zzU32("roc"))
			want[i] = ctx.startROCs[i]
		}
		for j := 0; j < i; j++ {
			zzAssume(ctx.ssrcs[j] != ctx.ssrcs[i])
		}
	}
	zzAssert(ctx.initialize() == nil, "offering context initialises")
	msg, err := contextToMikey(ctx)
	zzAssert(err == nil, "context is exported to MIKEY")
	// the byte-level round trip of the message is C09's (ZzC09MikeyRT); here the
	// message value goes straight to the receiving side unless BYTES=1
	m2 := *msg
	if zzParam("BYTES", 0) == 1 {
		enc, merr := msg.Marshal()
		zzAssert(merr == nil, "MIKEY message marshals")
		m2 = mikey.Message{}
		zzAssert(m2.Unmarshal(enc) == nil, "MIKEY message parses")
	}
	ctx2, err := mikeyToContext(&m2)
	zzAssert(err == nil, "receiving side builds its context")
	if err == nil {
		zzAssert(zzBytesEq(ctx2.key, key), "master key and salt preserved")
		zzAssert(len(ctx2.mki) == len(ctx.mki), "MKI presence preserved")
		if withMKI && len(ctx2.mki) == 4 {
			zzAssert(zzBytesEq(ctx2.mki, ctx.mki), "MKI preserved")
		}
		zzAssert(len(ctx2.ssrcs) == n, "same number of SSRCs")
		if len(ctx2.ssrcs) == n {
			for i := 0; i < n; i++ {
				zzAssert(ctx2.ssrcs[i] == ctx.ssrcs[i], "SSRC preserved, same position")
				zzAssert(ctx2.startROCs[i] == want[i], "roll-over counter preserved (0 for an SSRC without state)")
			}
		}
	}
	zzCover("with MKI", withMKI)
	zzCover("without MKI", !withMKI)

	// no downgrade through the policy: a message in which ONE of the six mandatory
	// security-policy parameters is missing or carries another value (encryption
	// or authentication switched off, other algorithm, other key length) is refused
	mandatory := []mikey.PayloadSPPolicyParamType{
		mikey.PayloadSPPolicyParamTypeEncrAlg, mikey.PayloadSPPolicyParamTypeSessionEncrKeyLen, mikey.PayloadSPPolicyParamTypeAuthAlg,
		mikey.PayloadSPPolicyParamTypeSRTPEncrOffOn, mikey.PayloadSPPolicyParamTypeSRTCPEncrOffOn, mikey.PayloadSPPolicyParamTypeSRTPAuthOffOn,
	}
	victim := mandatory[zzConcretize(zzIntIn("policy", 0, len(mandatory)-1))]
	drop := zzBool("dropParameter")
	m3 := *msg
	m3.Payloads = nil
	for _, pl := range msg.Payloads {
		sp, isSP := pl.(*mikey.PayloadSP)
		if !isSP {
			m3.Payloads = append(m3.Payloads, pl)
			continue
		}
		sp2 := &mikey.PayloadSP{PolicyNo: sp.PolicyNo, ProtType: sp.ProtType}
		for _, pp := range sp.PolicyParams {
			if pp.Type == victim {
				if drop {
					continue
				}
				other := zzU8("otherValue")
				zzAssume(other != pp.Value[0])
				pp = mikey.PayloadSPPolicyParam{Type: pp.Type, Value: []byte{other}}
			}
			sp2.PolicyParams = append(sp2.PolicyParams, pp)
		}
		m3.Payloads = append(m3.Payloads, sp2)
	}
	_, err3 := mikeyToContext(&m3)
	zzAssert(err3 != nil, "a message whose security policy deviates in one mandatory parameter is refused")
}
