package gortsplib

import "github.com/bluenviron/gortsplib/v5/pkg/mikey"

// C17 (key management, no cryptography): the SRTP parameters a side offers
// through MIKEY — master key and salt, MKI, SSRC list and roll-over counters —
// are exactly the ones the other side builds its context from, after the real
// contextToMikey -> Message.Marshal -> Unmarshal -> mikeyToContext chain.
func ZzC17MikeyContext() {
	key := zzBytes("key", srtpKeyLength, srtpKeyLength)
	ctx := &wrappedSRTPContext{key: key}
	withMKI := zzBool("withMKI")
	if withMKI {
		ctx.mki = zzBytes("mki", 4, 4)
	}
	n := zzConcretize(zzIntIn("nssrc", 1, 2))
	for i := 0; i < n; i++ {
		ctx.ssrcs = append(ctx.ssrcs, zzU32("ssrc"))
		ctx.startROCs = append(ctx.startROCs, zzU32("roc"))
	}
	if n == 2 {
		zzAssume(ctx.ssrcs[0] != ctx.ssrcs[1])
	}
	zzAssert(ctx.initialize() == nil, "offering context initialises")
	msg, err := contextToMikey(ctx)
	zzAssert(err == nil, "context is exported to MIKEY")
	enc, err := msg.Marshal()
	zzAssert(err == nil, "MIKEY message marshals")
	var m2 mikey.Message
	zzAssert(m2.Unmarshal(enc) == nil, "MIKEY message parses")
	ctx2, err := mikeyToContext(&m2)
	zzAssert(err == nil, "receiving side builds its context")
	if err == nil {
		zzAssert(zzBytesEq(ctx2.key, key), "master key and salt preserved")
		zzAssert(len(ctx2.mki) == len(ctx.mki), "MKI presence preserved")
		if withMKI && len(ctx2.mki) == 4 {
			zzAssert(zzBytesEq(ctx2.mki, ctx.mki), "MKI preserved")
		}
		zzAssert(len(ctx2.ssrcs) == n, "same number of SSRCs")
		if len(ctx2.ssrcs) == n {
			for i := 0; i < n; i++ {
				zzAssert(ctx2.ssrcs[i] == ctx.ssrcs[i], "SSRC preserved, same position")
				zzAssert(ctx2.startROCs[i] == ctx.startROCs[i], "roll-over counter preserved")
			}
		}
	}
	zzCover("with MKI", withMKI)
	zzCover("without MKI", !withMKI)
}
