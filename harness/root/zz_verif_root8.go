package gortsplib

import (
	"github.com/bluenviron/gortsplib/v5/pkg/base"
	"github.com/bluenviron/gortsplib/v5/pkg/description"
	"github.com/bluenviron/gortsplib/v5/pkg/liberrors"
)

type zzHandler struct {
	status base.StatusCode
	calls  int
}

func (h *zzHandler) OnPlay(*ServerHandlerOnPlayCtx) (*base.Response, error) {
	h.calls++
	return &base.Response{StatusCode: h.status}, nil
}

func (h *zzHandler) OnRecord(*ServerHandlerOnRecordCtx) (*base.Response, error) {
	h.calls++
	return &base.Response{StatusCode: h.status}, nil
}

func (h *zzHandler) OnPause(*ServerHandlerOnPauseCtx) (*base.Response, error) {
	h.calls++
	return &base.Response{StatusCode: h.status}, nil
}

var zzMethods = []base.Method{base.Announce, base.Setup, base.Play, base.Record, base.Pause}

// reference: RFC 2326 state machine (initial, pre-play, play, pre-record, record)
func zzAllowed(m base.Method, st ServerSessionState) bool {
	switch m {
	case base.Announce:
		return st == ServerSessionStateInitial
	case base.Setup:
		return st == ServerSessionStateInitial || st == ServerSessionStatePrePlay || st == ServerSessionStatePreRecord
	case base.Play:
		return st == ServerSessionStatePrePlay || st == ServerSessionStatePlay
	case base.Record:
		return st == ServerSessionStatePreRecord
	case base.Pause:
		return st == ServerSessionStatePrePlay || st == ServerSessionStatePlay || st == ServerSessionStatePreRecord || st == ServerSessionStateRecord
	}
	return false
}

// C02 (state guard) + C19 (session pinned to its interleaved connection):
// a request is refused with ErrServerInvalidState (status >= 400, state
// untouched) exactly when (method, state) is outside the RFC 2326 table; a
// request arriving on another connection than the one a TCP session is pinned
// to is refused and leaves the session untouched, in every state.
func ZzC02StateGuard() {
	h := &zzHandler{status: base.StatusNotFound}
	s := &Server{Handler: h}
	sc := &ServerConn{s: s}
	st := ServerSessionState(zzConcretize(zzIntIn("state", 0, 4)))
	ss := &ServerSession{s: s, state: st, setuppedPath: "/registered"}
	// a recording session always has its announced description; one media
	// announced, none set up, so that an admitted RECORD stops at that validation
	ss.announcedDesc = &description.Session{Medias: []*description.Media{{}}}
	pinned := zzBool("pinnedToOtherConn")
	if pinned {
		ss.tcpConn = &ServerConn{s: s}
	}
	m := zzMethods[zzConcretize(zzIntIn("method", 0, len(zzMethods)-1))]
	// the request is built so that an admitted request fails right after the
	// state check for another reason (no Content-Type / no Transport / other path)
	req := &base.Request{Method: m, URL: &base.URL{Scheme: "rtsp", Host: "h", Path: "/other"}, Header: base.Header{}}
	res, err := ss.handleRequestInner(sc, req)
	zzAssert(res != nil, "a response is always produced")
	_, isInv := err.(liberrors.ErrServerInvalidState)
	_, isLinked := err.(liberrors.ErrServerSessionLinkedToOtherConn)
	if pinned {
		zzAssert(isLinked, "request from another connection is refused")
		zzAssert(res.StatusCode == base.StatusBadRequest, "…with 400")
	} else {
		zzAssert(!isLinked, "request from the session's own connection is not refused for that reason")
		zzAssert(isInv == !zzAllowed(m, st), "state check refuses exactly the (method, state) pairs outside the RFC table")
		if isInv {
			zzAssert(res.StatusCode >= 400, "illegal request answered with an error status")
		}
	}
	zzAssert(ss.state == st, "a request refused by the state check, by validation or by the application leaves the session state unchanged")
	if isInv || pinned {
		zzAssert(h.calls == 0, "the application handler is not reached by a refused request")
	}
	zzCover("refused by state", isInv)
	zzCover("admitted by state", !isInv && !pinned)
}

// C02: when the application refuses PLAY / RECORD / PAUSE (non-200) the state
// does not move.
func ZzC02HandlerRefuses() {
	h := &zzHandler{status: base.StatusNotFound}
	s := &Server{Handler: h}
	sc := &ServerConn{s: s}
	m := []base.Method{base.Pause}[0]
	st := ServerSessionState(zzConcretize(zzIntIn("state", 1, 4)))
	ss := &ServerSession{s: s, state: st, setuppedPath: "/registered"}
	req := &base.Request{Method: m, URL: &base.URL{Scheme: "rtsp", Host: "h", Path: "/registered/"}, Header: base.Header{}}
	res, _ := ss.handleRequestInner(sc, req)
	zzAssert(res != nil && res.StatusCode == base.StatusNotFound, "the application's status is passed on")
	zzAssert(h.calls == 1, "handler called once")
	zzAssert(ss.state == st, "refused by the application: state unchanged")
	zzCover("done", true)
}
