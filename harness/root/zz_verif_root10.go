package gortsplib

import "github.com/pion/rtp"

// C01 (receive side, differential): on EVERY byte string up to P bytes the
// library's fast RTP unmarshalling (header by pion, body by fastRTPUnmarshal)
// agrees with pion's reference Packet.Unmarshal: both fail or both give the
// same header fields and the same payload.
func ZzC01FastUnmarshal() {
	P := zzParam("P", 20)
	buf := zzBytes("datagram", 0, P)
	var hdr rtp.Header
	hsize, herr := hdr.Unmarshal(buf)
	var ref rtp.Packet
	rerr := ref.Unmarshal(buf)
	if herr != nil {
		zzAssert(rerr != nil, "header rejected by both")
		zzCover("header rejected", true)
		return
	}
	// known, harmless leniency (not part of the property): pion >= 1.8 rejects a
	// set padding flag with a padding count of zero, the fast path keeps the
	// behaviour of the pion version it was copied from and accepts it with an
	// empty padding. Excluded from the comparison.
	if hdr.Padding && len(buf) > 0 {
		zzAssume(buf[len(buf)-1] != 0)
	}
	pkt, err := fastRTPUnmarshal(buf, &hdr, hsize)
	zzAssert((err == nil) == (rerr == nil), "accepted by the fast path iff accepted by the reference")
	if err == nil && rerr == nil {
		zzAssert(pkt.SequenceNumber == ref.SequenceNumber, "sequence number")
		zzAssert(pkt.Timestamp == ref.Timestamp, "timestamp")
		zzAssert(pkt.SSRC == ref.SSRC, "ssrc")
		zzAssert(pkt.Marker == ref.Marker, "marker")
		zzAssert(pkt.PayloadType == ref.PayloadType, "payload type")
		zzAssert(pkt.PaddingSize == ref.PaddingSize, "padding size")
		zzAssert(zzBytesEq(pkt.Payload, ref.Payload), "payload")
		zzCover("accepted", true)
	}
	zzInputsUnmodified()
}
