package gortsplib

import (
	"net"
	"time"

	"github.com/pion/rtcp"
	"github.com/pion/rtp"

	"github.com/bluenviron/gortsplib/v5/pkg/description"
	"github.com/bluenviron/gortsplib/v5/pkg/format"
	"github.com/bluenviron/gortsplib/v5/pkg/rtpreceiver"
	"github.com/bluenviron/gortsplib/v5/pkg/rtpsender"
)

func zzServerRecvGraph() (*Server, *ServerSession, *serverSessionMedia, *serverSessionFormat) {
	s := &Server{}
	s.timeNow = func() time.Time { return time.Unix(1700000000, 0) }
	ss := &ServerSession{s: s}
	forma := &format.Generic{PayloadTyp: 96, RTPMa: "private/90000", ClockRat: 90000}
	medi := &description.Media{Type: description.MediaTypeVideo, Formats: []format.Format{forma}}
	ssm := &serverSessionMedia{ss: ss, media: medi, formats: map[uint8]*serverSessionFormat{}}
	ssm.onPacketRTCP = func(rtcp.Packet) {}
	ssf := &serverSessionFormat{ssm: ssm, format: forma}
	ssf.rtpReceiver = &rtpreceiver.Receiver{ClockRate: 90000, UnrealiableTransport: true, BufferSize: zzParam("B", 4), Period: time.Second, TimeNow: s.timeNow}
	zzAssert(ssf.rtpReceiver.Initialize() == nil, "receiver initialises")
	ssm.formats[96] = ssf
	return s, ss, ssm, ssf
}

// C01 (server side, record direction over UDP): same obligations as
// ZzC01ClientUDPReceive on the server listener loop, the session media demux and
// the session format; in addition every accepted datagram refreshes the
// session's UDP liveness clock (C02: a peer that keeps sending is never expired).
func ZzC01ServerUDPReceive() {
	K := zzParam("K", 3)
	P := zzParam("P", 2)
	_, ss, ssm, ssf := zzServerRecvGraph()
	var got []*rtp.Packet
	ssf.onPacketRTP = func(pkt *rtp.Packet) { got = append(got, pkt) }
	ip := net.IPv4(127, 0, 0, 1)
	pc := &zzPC2{}
	seqs := make([]uint16, K)
	payloads := make([][]byte, K)
	for k := 0; k < K; k++ {
		seqs[k] = zzU16("seq")
		d16 := int16(seqs[k] - seqs[0])
		zzAssume(zzAnd(d16 > -16384, d16 < 16384))
		payloads[k] = zzBytes("payload", P, P)
		d := make([]byte, 12+P)
		d[0] = 0x80
		d[1] = 96
		d[2] = byte(seqs[k] >> 8)
		d[3] = byte(seqs[k])
		d[7] = byte(k)
		d[11] = 0x2a
		copy(d[12:], payloads[k])
		pc.ips = append(pc.ips, ip)
		pc.ports = append(pc.ports, 5000)
		pc.data = append(pc.data, d)
	}
	u := &serverUDPListener{pc: pc, clients: make(map[clientAddr]readFunc), done: make(chan struct{})}
	u.addClient(ip, 5000, ssm.readPacketRTPUDPRecord)
	u.run()
	for i, p := range got {
		ok := false
		for k := 0; k < K; k++ {
			ok = zzOr(ok, zzAnd(p.SequenceNumber == seqs[k], zzBytesEq(p.Payload, payloads[k])))
		}
		zzAssert(ok, "a delivered packet carries the payload that was sent with its sequence number")
		for j := 0; j < i; j++ {
			zzAssert(got[j].SequenceNumber != p.SequenceNumber, "no sequence number is delivered twice")
		}
	}
	zzAssert(len(got) >= 1, "the first datagram is always delivered")
	zzAssert(ss.udpLastPacketTime.Load() == 1700000000, "media from the peer refreshes the session's liveness clock")
	zzCover("all delivered", len(got) == K)
	zzCover("some withheld or dropped", len(got) < K)
}

// C02 (liveness over UDP): every UDP entry point of a session media - RTP and
// RTCP while recording, RTP (back channel) and RTCP while playing - refreshes
// the session's last-packet time, whatever the datagram contains: a peer that
// keeps sending reports or media is not expired by the UDP timeout check.
func ZzC02UDPKeepAlive() {
	_, ss, ssm, ssf := zzServerRecvGraph()
	ssf.onPacketRTP = func(*rtp.Packet) {}
	ssf.rtpSender = &rtpsender.Sender{ClockRate: 90000}
	which := zzConcretize(zzIntIn("entry", 0, 3))
	// RTP entry points: arbitrary bytes; RTCP entry points: a receiver report with
	// symbolic fields (pion's RTCP error paths use reflection, outside the engine)
	data := zzBytes("datagram", 0, zzParam("P", 12))
	if which == 1 || which == 3 {
		rr := &rtcp.ReceiverReport{SSRC: zzU32("ssrc"), Reports: []rtcp.ReceptionReport{{SSRC: zzU32("rssrc"), FractionLost: zzU8("fl"), LastSequenceNumber: zzU32("lsn")}}}
		b, err := rr.Marshal()
		zzAssert(err == nil, "report marshals")
		data = b
	}
	zzAssert(ss.udpLastPacketTime.Load() == 0, "clock not yet refreshed")
	switch which {
	case 0:
		ssm.readPacketRTPUDPRecord(data)
	case 1:
		ssm.readPacketRTCPUDPRecord(data)
	case 2:
		ssm.readPacketRTPUDPPlay(data)
	case 3:
		ssm.readPacketRTCPUDPPlay(data)
	}
	zzAssert(ss.udpLastPacketTime.Load() == 1700000000, "a datagram from the peer on any UDP entry point refreshes the liveness clock")
	zzCover("done", true)
}
