package headers

import (
	"time"

	"github.com/bluenviron/gortsplib/v5/pkg/base"
)

func zzSMPTETime(tag string) RangeSMPTETime {
	// whole seconds from a list (Duration.Seconds() is float arithmetic: kept
	// concrete here, the float side of Range is decided by ZzC09RangeNPT)
	secs := []int{0, 3599, 359999, 60, 7, 59, 3600, 86399}[zzConcretize(zzIntIn(tag+"secs", 0, zzParam("NSEC", 8)-1))]
	fr := zzIntIn(tag+"frame", 0, zzParam("FMAX", 12))
	sf := zzIntIn(tag+"subframe", 0, zzParam("FMAX", 12))
	return RangeSMPTETime{Time: time.Duration(secs) * time.Second, Frame: uint(fr), Subframe: uint(sf)}
}

// C09 (Range, SMPTE): every SMPTE time (whole seconds from a list of 8 boundary values, frame and
// subframe 0..FMAX, each independently zero or not) survives marshal ->
// unmarshal, alone and as start / optional end of a Range header.
func ZzC09RangeSMPTE() {
	t1 := zzSMPTETime("start-")
	var t1b RangeSMPTETime
	err := t1b.unmarshal(t1.marshal())
	zzAssert(err == nil, "smpte: marshalled time parses")
	zzAssert(zzAnd(t1b.Time == t1.Time, zzAnd(t1b.Frame == t1.Frame, t1b.Subframe == t1.Subframe)), "smpte: time, frame and subframe round-trip")
	zzCover("frame zero, subframe not", zzAnd(t1.Frame == 0, t1.Subframe != 0))
	zzCover("frame only", zzAnd(t1.Frame != 0, t1.Subframe == 0))
	zzCover("neither", zzAnd(t1.Frame == 0, t1.Subframe == 0))
}

// the same through the Range header, with an optional end
func ZzC09RangeSMPTEHeader() {
	r := &RangeSMPTE{Start: zzSMPTETime("start-")}
	withEnd := zzBool("withEnd")
	if withEnd {
		e := zzSMPTETime("end-")
		r.End = &e
	}
	h := Range{Value: r}
	var h2 Range
	err := h2.Unmarshal(base.HeaderValue(h.Marshal()))
	zzAssert(err == nil, "smpte: marshalled Range header parses")
	if err != nil {
		return
	}
	r2, ok := h2.Value.(*RangeSMPTE)
	zzAssert(ok, "smpte: parsed as a SMPTE range")
	if !ok {
		return
	}
	zzAssert(zzAnd(r2.Start.Time == r.Start.Time, zzAnd(r2.Start.Frame == r.Start.Frame, r2.Start.Subframe == r.Start.Subframe)), "smpte: start round-trips")
	zzAssert((r2.End != nil) == withEnd, "smpte: presence of the end preserved")
	if withEnd && r2.End != nil {
		zzAssert(zzAnd(r2.End.Time == r.End.Time, zzAnd(r2.End.Frame == r.End.Frame, r2.End.Subframe == r.End.Subframe)), "smpte: end round-trips")
	}
	zzCover("with end", withEnd)
}
