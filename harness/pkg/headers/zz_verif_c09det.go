package headers

import "github.com/bluenviron/gortsplib/v5/pkg/base"

var zzTransportTokens = []string{
	"RTP/AVP", "RTP/AVP/TCP", "RTP/SAVP/TCP", "unicast", "multicast",
	"ttl=x", "ttl=5", "interleaved=0-1", "interleaved=y", "mode=play", "mode=record", "client_port=1-2",
}

func zzPick(list []string, name string) string {
	i := zzConcretize(zzIntIn(name, 0, len(list)-1))
	return list[i]
}

func zzSameTransport(a, b *Transport) bool {
	if a.Profile != b.Profile || a.Protocol != b.Protocol {
		return false
	}
	if (a.Delivery == nil) != (b.Delivery == nil) {
		return false
	}
	if a.Delivery != nil && *a.Delivery != *b.Delivery {
		return false
	}
	if (a.TTL == nil) != (b.TTL == nil) {
		return false
	}
	if a.TTL != nil && *a.TTL != *b.TTL {
		return false
	}
	if (a.Mode == nil) != (b.Mode == nil) {
		return false
	}
	if a.Mode != nil && *a.Mode != *b.Mode {
		return false
	}
	if (a.InterleavedIDs == nil) != (b.InterleavedIDs == nil) {
		return false
	}
	if (a.ClientPorts == nil) != (b.ClientPorts == nil) {
		return false
	}
	return true
}

// Determinism: the same Transport value parsed twice (two independent map
// iteration orders, engine option -mapperm) gives the same value or fails both
// times.
func ZzC09TransportDeterministic() {
	s := zzPick(zzTransportTokens, "t1") + ";" + zzPick(zzTransportTokens, "t2")
	if zzParam("NTOK", 3) >= 3 {
		s += ";" + zzPick(zzTransportTokens, "t3")
	}
	var h1, h2 Transport
	err1 := h1.Unmarshal(base.HeaderValue{s})
	err2 := h2.Unmarshal(base.HeaderValue{s})
	zzAssert((err1 == nil) == (err2 == nil), "transport: same input accepted or rejected both times")
	zzAssert(zzSameFailure(err1, err2), "transport: same input, same failure")
	if err1 == nil && err2 == nil {
		zzAssert(zzSameTransport(&h1, &h2), "transport: same input parses to the same value")
	}
	zzCover("accepted", err1 == nil)
	zzCover("rejected", err1 != nil)
}

var zzRangeTokens = []string{"npt=1-", "npt=2-3", "smpte=0:00:02-", "clock=19961108T142300Z-", "time=19970123T143720Z", "npt=x", "foo=bar"}

func ZzC09RangeDeterministic() {
	s := zzPick(zzRangeTokens, "t1") + ";" + zzPick(zzRangeTokens, "t2")
	var h1, h2 Range
	err1 := h1.Unmarshal(base.HeaderValue{s})
	err2 := h2.Unmarshal(base.HeaderValue{s})
	zzAssert((err1 == nil) == (err2 == nil), "range: same input accepted or rejected both times")
	zzAssert(zzSameFailure(err1, err2), "range: same input, same failure")
	if err1 == nil && err2 == nil {
		_, n1 := h1.Value.(*RangeNPT)
		_, n2 := h2.Value.(*RangeNPT)
		_, s1 := h1.Value.(*RangeSMPTE)
		_, s2 := h2.Value.(*RangeSMPTE)
		_, u1 := h1.Value.(*RangeUTC)
		_, u2 := h2.Value.(*RangeUTC)
		zzAssert(n1 == n2 && s1 == s2 && u1 == u2, "range: same input parses to the same kind of range")
		zzAssert((h1.Time == nil) == (h2.Time == nil), "range: same time presence")
	}
	zzCover("accepted", err1 == nil)
	zzCover("rejected", err1 != nil)
}

// same failure: both nil, or both errors of the same kind (the engine keeps the
// format string of fmt.Errorf, natively the formatted text is compared)
func zzSameFailure(a, b error) bool {
	if a == nil || b == nil {
		return a == nil && b == nil
	}
	return a.Error() == b.Error()
}

var zzDetTokens = [][]string{
	// KeyMgmt (';')
	{"prot=mikey", "prot=sdes", `uri="u"`, `data="!!"`, `data="AQAAAAAAAAAAAA=="`, "foo=bar"},
	// WWW-Authenticate Digest (',')
	{`realm="r"`, `nonce="n"`, `algorithm="bad"`, `algorithm="MD5"`, `algorithm="nope"`, `stale="x"`, `opaque="o"`},
	// Authorization Digest (',')
	{`username="u"`, `realm="r"`, `nonce="n"`, `uri="x"`, `response="y"`, `algorithm="bad"`, `algorithm="worse"`, `algorithm="SHA-256"`},
	// Session (';' after the id)
	{"timeout=x", "timeout=5", "timeout=y", "foo=bar"},
	// RTP-Info entry (';')
	{"url=u", "seq=x", "seq=5", "rtptime=y", "rtptime=7", "foo=bar"},
}

// Determinism for the remaining key/value headers: an input made of 2..NTOK
// tokens (valid and faulty ones, so that several faults can coexist) parsed
// twice under independent map iteration orders gives the same value (compared
// through its marshalled form) or the same failure.
func ZzC09HeadersDeterministic() {
	which := zzParam("HDR", 0)
	toks := zzDetTokens[which]
	sep := ";"
	if which == 1 || which == 2 {
		sep = ", "
	}
	s := zzPick(toks, "t1") + sep + zzPick(toks, "t2")
	if zzParam("NTOK", 3) >= 3 {
		s += sep + zzPick(toks, "t3")
	}
	switch which {
	case 0:
		var h1, h2 KeyMgmt
		e1 := h1.Unmarshal(base.HeaderValue{s})
		e2 := h2.Unmarshal(base.HeaderValue{s})
		zzAssert(zzSameFailure(e1, e2), "keymgmt: same input, same failure")
		if e1 == nil && e2 == nil {
			zzAssert(h1.URL == h2.URL, "keymgmt: same value")
		}
		zzCover("rejected", e1 != nil)
	case 1:
		var h1, h2 Authenticate
		e1 := h1.Unmarshal(base.HeaderValue{"Digest " + s})
		e2 := h2.Unmarshal(base.HeaderValue{"Digest " + s})
		zzAssert(zzSameFailure(e1, e2), "authenticate: same input, same failure")
		if e1 == nil && e2 == nil {
			zzAssert(h1.Marshal()[0] == h2.Marshal()[0], "authenticate: same value")
		}
		zzCover("rejected", e1 != nil)
	case 2:
		var h1, h2 Authorization
		e1 := h1.Unmarshal(base.HeaderValue{"Digest " + s})
		e2 := h2.Unmarshal(base.HeaderValue{"Digest " + s})
		zzAssert(zzSameFailure(e1, e2), "authorization: same input, same failure")
		if e1 == nil && e2 == nil {
			zzAssert(h1.Marshal()[0] == h2.Marshal()[0], "authorization: same value")
		}
		zzCover("rejected", e1 != nil)
	case 3:
		var h1, h2 Session
		e1 := h1.Unmarshal(base.HeaderValue{"abc;" + s})
		e2 := h2.Unmarshal(base.HeaderValue{"abc;" + s})
		zzAssert(zzSameFailure(e1, e2), "session: same input, same failure")
		if e1 == nil && e2 == nil {
			zzAssert(h1.Marshal()[0] == h2.Marshal()[0], "session: same value")
		}
		zzCover("rejected", e1 != nil)
	default:
		var h1, h2 RTPInfo
		e1 := h1.Unmarshal(base.HeaderValue{s})
		e2 := h2.Unmarshal(base.HeaderValue{s})
		zzAssert(zzSameFailure(e1, e2), "rtp-info: same input, same failure")
		if e1 == nil && e2 == nil {
			zzAssert(h1.Marshal()[0] == h2.Marshal()[0], "rtp-info: same value")
		}
		zzCover("rejected", e1 != nil)
	}
}
