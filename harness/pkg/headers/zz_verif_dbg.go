package headers

import "github.com/bluenviron/gortsplib/v5/pkg/base"

func ZzDbgRTPInfo() {
	var h RTPInfo
	err := h.Unmarshal(base.HeaderValue{"url=rtsp://127.0.0.1/test.mkv/track1;seq=35243;rtptime=717574556,url=rtsp://127.0.0.1/test.mkv/track2;seq=13655"})
	zzAssert(err == nil, "rtpinfo parses")
	zzAssert(len(h) == 2, "two entries")
}

func ZzDbgFloat() {
	var h Range
	err := h.Unmarshal(base.HeaderValue{"npt=2-3"})
	zzAssert(err == nil, "range parses")
}
