package headers

// Transport header: marshal -> unmarshal is the identity for every value built
// from the header's own grammar (optional fields present or absent, ports
// 0..65535, SSRC over all 32 bits, TTL, interleaved ids, mode).
// one port symbolic over 0..65535, the other pinned (PORTQ) — two fully symbolic
// decimal numbers multiply the digit-count case splits beyond reach
func zzPorts(name string) *[2]int {
	q := zzParam("PORTQ", 65535)
	if zzParam("PSWAP", 0) != 0 {
		return &[2]int{q, int(zzU16(name + "1"))}
	}
	return &[2]int{int(zzU16(name + "0")), q}
}

func zzSamePorts(a, b *[2]int) bool {
	if (a == nil) != (b == nil) {
		return false
	}
	if a == nil {
		return true
	}
	return zzAnd(a[0] == b[0], a[1] == b[1])
}

func ZzC09TransportRT() {
	var h Transport
	// FIELD = -1: all profile/protocol/delivery/mode combinations, no numeric field;
	// FIELD = 0..5: one numeric field over its full range, on a fixed combination.
	field := zzParam("FIELD", -1)
	combos := field < 0
	if combos && zzBool("secure") {
		h.Profile = TransportProfileSAVP
	} else {
		h.Profile = TransportProfileAVP
	}
	if combos && zzBool("tcp") {
		h.Protocol = TransportProtocolTCP
	} else {
		h.Protocol = TransportProtocolUDP
	}
	dsel := 1
	if combos {
		dsel = zzConcretize(zzIntIn("delivery", 0, 2))
	}
	switch dsel {
	case 1:
		d := TransportDeliveryUnicast
		h.Delivery = &d
	case 2:
		d := TransportDeliveryMulticast
		h.Delivery = &d
	}
	which := field
	switch which {
	case 0:
		h.ClientPorts = zzPorts("client")
	case 1:
		h.ServerPorts = zzPorts("server")
	case 2:
		h.Ports = zzPorts("port")
	case 3:
		h.InterleavedIDs = &[2]int{int(zzU8("il0")), int(zzU8("il1"))}
	case 4:
		v := zzU32("ssrc")
		h.SSRC = &v
	case 5:
		t := uint(zzU8("ttl"))
		h.TTL = &t
	}
	if combos && zzBool("hasMode") {
		m := TransportModePlay
		if zzBool("record") {
			m = TransportModeRecord
		}
		h.Mode = &m
	}
	v := h.Marshal()
	var h2 Transport
	err := h2.Unmarshal(v)
	zzAssert(err == nil, "transport: marshalled form parses")
	zzAssert(h2.Profile == h.Profile && h2.Protocol == h.Protocol, "transport: profile and protocol preserved")
	zzAssert((h2.Delivery == nil) == (h.Delivery == nil), "transport: delivery presence preserved")
	if h.Delivery != nil && h2.Delivery != nil {
		zzAssert(*h2.Delivery == *h.Delivery, "transport: delivery preserved")
	}
	zzAssert(zzSamePorts(h2.ClientPorts, h.ClientPorts), "transport: client ports preserved")
	zzAssert(zzSamePorts(h2.ServerPorts, h.ServerPorts), "transport: server ports preserved")
	zzAssert(zzSamePorts(h2.Ports, h.Ports), "transport: ports preserved")
	zzAssert(zzSamePorts(h2.InterleavedIDs, h.InterleavedIDs), "transport: interleaved ids preserved")
	zzAssert((h2.SSRC == nil) == (h.SSRC == nil), "transport: ssrc presence preserved")
	if h.SSRC != nil && h2.SSRC != nil {
		zzAssert(*h2.SSRC == *h.SSRC, "transport: ssrc preserved")
	}
	zzAssert((h2.TTL == nil) == (h.TTL == nil), "transport: ttl presence preserved")
	if h.TTL != nil && h2.TTL != nil {
		zzAssert(*h2.TTL == *h.TTL, "transport: ttl preserved")
	}
	zzAssert((h2.Mode == nil) == (h.Mode == nil), "transport: mode presence preserved")
	if h.Mode != nil && h2.Mode != nil {
		zzAssert(*h2.Mode == *h.Mode, "transport: mode preserved")
	}
	zzCover("done", true)
}
