package headers

import "github.com/bluenviron/gortsplib/v5/pkg/mikey"

// text allowed inside a quoted header field: printable, no quote
func zzQText(name string, min, max int) string {
	s := zzString(name, min, max)
	ok := true
	for i := 0; i < max; i++ {
		c := zzSAt(s, i)
		ok = zzAnd(ok, zzImplies(i < len(s), zzAnd(zzAnd(c >= 0x20, c < 0x7f), c != '"')))
	}
	zzAssume(ok)
	return s
}

func zzOptQText(name string, max int) *string {
	if !zzBool("has-" + name) {
		return nil
	}
	v := zzQText(name, 0, max)
	return &v
}

func zzOptAlg() *AuthAlgorithm {
	switch zzConcretize(zzIntIn("alg", 0, 2)) {
	case 1:
		a := AuthAlgorithmMD5
		return &a
	case 2:
		a := AuthAlgorithmSHA256
		return &a
	}
	return nil
}

func zzSameOptStr(a, b *string) bool {
	if (a == nil) != (b == nil) {
		return false
	}
	return a == nil || *a == *b
}

func zzSameOptAlg(a, b *AuthAlgorithm) bool {
	if (a == nil) != (b == nil) {
		return false
	}
	return a == nil || *a == *b
}

// C09 (WWW-Authenticate): Basic and Digest challenges with symbolic realm and
// nonce (printable text incl. ',' '=' ';' and spaces), optional opaque / stale /
// algorithm: Unmarshal(Marshal(h)) == h, Marshal pure.
func ZzC09AuthenticateRT() {
	L := zzParam("L", 2)
	h := Authenticate{Realm: zzQText("realm", 0, L)}
	if zzBool("digest") {
		h.Method = AuthMethodDigest
		h.Nonce = zzQText("nonce", 0, L)
		h.Opaque = zzOptQText("opaque", L)
		h.Stale = zzOptQText("stale", L)
		h.Algorithm = zzOptAlg()
	}
	enc := h.Marshal()
	var h2 Authenticate
	err := h2.Unmarshal(enc)
	zzAssert(err == nil, "authenticate: marshalled header parses")
	if err == nil {
		zzAssert(h2.Method == h.Method, "authenticate: method preserved")
		zzAssert(h2.Realm == h.Realm, "authenticate: realm preserved")
		zzAssert(h2.Nonce == h.Nonce, "authenticate: nonce preserved")
		zzAssert(zzSameOptStr(h.Opaque, h2.Opaque), "authenticate: opaque preserved")
		zzAssert(zzSameOptStr(h.Stale, h2.Stale), "authenticate: stale preserved")
		zzAssert(zzSameOptAlg(h.Algorithm, h2.Algorithm), "authenticate: algorithm preserved")
	}
	enc2 := h.Marshal()
	zzAssert(enc2[0] == enc[0], "authenticate: marshalling is pure")
	zzCover("digest", h.Method == AuthMethodDigest)
	zzCover("basic", h.Method == AuthMethodBasic)
}

// C09 (Authorization): Basic (user without ':', any printable password) and
// Digest credentials with symbolic fields: Unmarshal(Marshal(h)) == h.
func ZzC09AuthorizationRT() {
	L := zzParam("L", 2)
	var h Authorization
	if zzBool("digest") {
		h.Method = AuthMethodDigest
		h.Username = zzQText("user", 0, L)
		h.Realm = zzQText("realm", 0, L)
		h.Nonce = zzQText("nonce", 0, L)
		h.URI = zzQText("uri", 0, L)
		h.Response = zzQText("response", 0, L)
		h.Opaque = zzOptQText("opaque", L)
		h.Algorithm = zzOptAlg()
	} else {
		h.Method = AuthMethodBasic
		u := zzQText("user", 1, L)
		ok := true
		for i := 0; i < L; i++ {
			ok = zzAnd(ok, zzImplies(i < len(u), zzSAt(u, i) != ':'))
		}
		zzAssume(ok)
		h.Username = u
		h.BasicPass = zzQText("pass", 0, L)
	}
	enc := h.Marshal()
	var h2 Authorization
	err := h2.Unmarshal(enc)
	zzAssert(err == nil, "authorization: marshalled header parses")
	if err == nil {
		zzAssert(h2.Method == h.Method, "authorization: method preserved")
		zzAssert(h2.Username == h.Username, "authorization: user preserved")
		zzAssert(h2.BasicPass == h.BasicPass, "authorization: password preserved")
		zzAssert(h2.Realm == h.Realm, "authorization: realm preserved")
		zzAssert(h2.Nonce == h.Nonce, "authorization: nonce preserved")
		zzAssert(h2.URI == h.URI, "authorization: uri preserved")
		zzAssert(h2.Response == h.Response, "authorization: response preserved")
		zzAssert(zzSameOptStr(h.Opaque, h2.Opaque), "authorization: opaque preserved")
		zzAssert(zzSameOptAlg(h.Algorithm, h2.Algorithm), "authorization: algorithm preserved")
	}
	zzCover("digest", h.Method == AuthMethodDigest)
	zzCover("basic", h.Method == AuthMethodBasic)
}

// C09 (KeyMgmt): the text wrapper around a MIKEY message (prot / uri / base64
// data): URL (symbolic quoted text) and message come back equal.
func ZzC09KeyMgmtRT() {
	m := &mikey.Message{Header: mikey.Header{Version: 1, CSBID: zzU32("csbid")}}
	if zzBool("withCS") {
		m.Header.CSIDMapInfo = []mikey.SRTPIDEntry{{PolicyNo: zzU8("pol"), SSRC: zzU32("ssrc"), ROC: zzU32("roc")}}
	}
	if zzBool("withT") {
		m.Payloads = append(m.Payloads, &mikey.PayloadT{TSValue: zzU64("ts")})
	}
	h := KeyMgmt{URL: zzQText("url", 0, zzParam("L", 2)), MikeyMessage: m}
	enc, err := h.Marshal()
	zzAssert(err == nil, "keymgmt: marshals")
	var h2 KeyMgmt
	err = h2.Unmarshal(enc)
	zzAssert(err == nil, "keymgmt: marshalled header parses")
	if err == nil {
		zzAssert(h2.URL == h.URL, "keymgmt: url preserved")
		m2 := h2.MikeyMessage
		zzAssert(m2.Header.CSBID == m.Header.CSBID, "keymgmt: CSB id preserved")
		zzAssert(len(m2.Header.CSIDMapInfo) == len(m.Header.CSIDMapInfo), "keymgmt: crypto sessions preserved")
		if len(m2.Header.CSIDMapInfo) == 1 && len(m.Header.CSIDMapInfo) == 1 {
			zzAssert(m2.Header.CSIDMapInfo[0] == m.Header.CSIDMapInfo[0], "keymgmt: crypto session entry preserved")
		}
		zzAssert(len(m2.Payloads) == len(m.Payloads), "keymgmt: payloads preserved")
		if len(m2.Payloads) == 1 && len(m.Payloads) == 1 {
			t2, ok := m2.Payloads[0].(*mikey.PayloadT)
			zzAssert(ok && t2.TSValue == m.Payloads[0].(*mikey.PayloadT).TSValue, "keymgmt: timestamp payload preserved")
		}
	}
	zzCover("done", true)
}
