package headers

import "time"

// NPT times with millisecond resolution survive marshal -> unmarshal exactly.
// strconv.FormatFloat/ParseFloat are an opaque inverse pair (engine stub); the
// duration <-> float seconds arithmetic of the real code is what is decided.
func ZzC09RangeNPT() {
	k := zzIntIn("ms", 0, zzParam("KMAX", 1<<30))
	d := time.Duration(k) * time.Millisecond
	s := marshalRangeNPTTime(d)
	var d2 time.Duration
	err := unmarshalRangeNPTTime(&d2, s)
	zzAssert(err == nil, "npt: marshalled time parses")
	zzAssert(d2 == d, "npt: millisecond-resolution time round-trips exactly")
	zzCover("nonzero", k > 0)
}
