package headers

// C09 (RTP-Info): 1..N entries, each with a URL, an optional sequence number
// and an optional RTP time: Unmarshal(Marshal(h)) == h, Marshal is pure.
func ZzC09RTPInfoRT() {
	n := zzConcretize(zzIntIn("entries", 1, zzParam("N", 2)))
	var h RTPInfo
	for i := 0; i < n; i++ {
		e := &RTPInfoEntry{URL: []string{"rtsp://h:8554/p/trackID=0", "rtsp://[::1]/a?b=c/trackID=1", "trackID=2"}[zzConcretize(zzIntIn("url", 0, 2))]}
		if zzBool("hasSeq") {
			var v uint16
			lo := 1
			if i == 0 && zzParam("SYM", 0) == 0 {
				lo = 0 // symbolic small value only in the first entry, one field at a time
			}
			switch zzConcretize(zzIntIn("seqkind", lo, 2)) {
			case 0:
				v = uint16(zzIntIn("smallseq", 0, zzParam("SMALL", 99)))
			case 1:
				v = 65535
			default:
				v = 10000
			}
			e.SequenceNumber = &v
		}
		if zzBool("hasTime") {
			// full 32-bit values from a spread of magnitudes (decimal conversion of an
			// arbitrary 32-bit number is beyond the solvers), plus every value < 1000
			var v uint32
			lo := 1
			if i == 0 && zzParam("SYM", 0) == 1 {
				lo = 0
			}
			switch zzConcretize(zzIntIn("timekind", lo, 3)) {
			case 0:
				v = uint32(zzIntIn("smalltime", 0, zzParam("SMALL", 99)))
			case 1:
				v = 4294967295
			case 2:
				v = 1000000000
			default:
				v = 305419896
			}
			e.Timestamp = &v
		}
		h = append(h, e)
	}
	enc := h.Marshal()
	var h2 RTPInfo
	err := h2.Unmarshal(enc)
	zzAssert(err == nil, "rtp-info: marshalled header parses")
	if err == nil {
		zzAssert(len(h2) == n, "rtp-info: same number of entries")
		if len(h2) == n {
			for i := range h {
				a, b := h[i], h2[i]
				zzAssert(a.URL == b.URL, "rtp-info: url preserved")
				zzAssert((a.SequenceNumber == nil) == (b.SequenceNumber == nil), "rtp-info: seq presence preserved")
				if a.SequenceNumber != nil && b.SequenceNumber != nil {
					zzAssert(*a.SequenceNumber == *b.SequenceNumber, "rtp-info: seq preserved")
				}
				zzAssert((a.Timestamp == nil) == (b.Timestamp == nil), "rtp-info: rtptime presence preserved")
				if a.Timestamp != nil && b.Timestamp != nil {
					zzAssert(*a.Timestamp == *b.Timestamp, "rtp-info: rtptime preserved")
				}
			}
		}
	}
	enc2 := h.Marshal()
	zzAssert(len(enc2) == 1 && enc2[0] == enc[0], "rtp-info: marshalling is a pure function of the value")
	zzCover("all entries", n == zzParam("N", 2))
}
