package headers

import "github.com/bluenviron/gortsplib/v5/pkg/base"

// token made of bytes that are neither separators nor quotes nor spaces
func zzToken(name string, min, max int) string {
	s := zzString(name, min, max)
	ok := true
	for i := 0; i < max; i++ {
		c := zzSAt(s, i)
		good := zzAnd(zzAnd(c > 0x20, c < 0x7f), zzAnd(zzAnd(c != ';', c != '"'), zzAnd(c != ',', c != '=')))
		ok = zzAnd(ok, zzImplies(i < len(s), good))
	}
	zzAssume(ok)
	return s
}

// Session header: marshal -> unmarshal is the identity, all timeouts.
func ZzC09SessionRT() {
	h := Session{Session: zzToken("id", 1, 4)}
	if zzBool("hasTimeout") {
		t := uint(zzU32("timeout"))
		zzAssume(t <= uint(zzParam("TMAX", 99999))) // decimal conversion of wider numbers is beyond the solvers (stated bound)
		h.Timeout = &t
	}
	v := h.Marshal()
	var h2 Session
	err := h2.Unmarshal(v)
	zzAssert(err == nil, "session: marshalled form parses")
	zzAssert(h2.Session == h.Session, "session: id preserved")
	zzAssert((h2.Timeout == nil) == (h.Timeout == nil), "session: timeout presence preserved")
	if h.Timeout != nil && h2.Timeout != nil {
		zzAssert(*h2.Timeout == *h.Timeout, "session: timeout value preserved")
	}
	zzCover("with timeout", h.Timeout != nil)
	zzCover("without timeout", h.Timeout == nil)
}

// Session header: parsing is total on arbitrary strings (template with holes)
func ZzC09SessionTotal() {
	P := zzParam("P", 10)
	s := zzString("value", 0, P)
	var h Session
	err := h.Unmarshal(base.HeaderValue{s})
	if err == nil {
		// accepted values re-marshal to something that parses to the same value
		var h2 Session
		err2 := h2.Unmarshal(h.Marshal())
		zzAssert(err2 == nil, "session: accepted value re-marshals to a parsable form")
		if err2 == nil {
			zzAssert(h2.Session == h.Session, "session: stable id")
		}
	}
	zzCover("accepted", err == nil)
	zzCover("rejected", err != nil)
}
