package conn

import (
	"bufio"
	"bytes"
	"io"

	"github.com/bluenviron/gortsplib/v5/pkg/base"
)

type zzSplitReader struct {
	data  []byte
	pos   int
	split int
}

func (r *zzSplitReader) Read(p []byte) (int, error) {
	if r.pos >= len(r.data) {
		return 0, io.EOF
	}
	end := len(r.data)
	if r.split == 0 {
		end = r.pos + 1
	} else if r.pos < r.split {
		end = r.split
	}
	n := copy(p, r.data[r.pos:end])
	r.pos += n
	return n, nil
}

// writer that counts Write calls: frames and responses are written by different
// goroutines onto the same connection, so each element must be handed over in ONE
// Write (otherwise another element can land in the middle of it)
type zzCountingWriter struct {
	buf    bytes.Buffer
	writes int
}

func (w *zzCountingWriter) Write(p []byte) (int, error) {
	w.writes++
	return w.buf.Write(p)
}

var zzMethods = []base.Method{base.Announce, base.Describe, base.GetParameter, base.Options, base.Pause, base.Play, base.Record, base.Setup, base.SetParameter, base.Teardown}

// C04 (dispatch between frames, responses and requests): a sequence of N
// elements, each a request (any of the ten methods), a response or an
// interleaved frame (symbolic channel and payload), written back to back with
// the real Write* functions, optionally preceded by a stray byte, is read back
// by Conn.Read as the same sequence of kinds with the same key contents - with
// the stream delivered byte by byte, or cut at every position into two reads.
func ZzC04ConnSequence() {
	N := zzParam("N", 2)
	wire := &zzCountingWriter{}
	c := NewConn(nil, wire)
	kinds := make([]int, N)
	mis := make([]int, N)
	chans := make([]int, N)
	pls := make([][]byte, N)
	u, err := base.ParseURL("rtsp://host/p")
	zzAssert(err == nil, "url parses")
	if zzBool("strayByte") {
		b := zzU8("stray")
		// a byte that cannot start an element
		zzAssume(zzAnd(b != '$', zzAnd(b != 'R', zzAnd(b != 'A', zzAnd(b != 'D', zzAnd(b != 'G', zzAnd(b != 'O', zzAnd(b != 'P', zzAnd(b != 'S', b != 'T')))))))))
		wire.buf.WriteByte(b)
	}
	for i := 0; i < N; i++ {
		kinds[i] = zzConcretize(zzIntIn("kind", 0, 2))
		switch kinds[i] {
		case 0:
			mis[i] = zzConcretize(zzIntIn("method", zzParam("MLO", 0), zzParam("MHI", len(zzMethods)-1)))
			zzAssert(c.WriteRequest(&base.Request{Method: zzMethods[mis[i]], URL: u, Header: base.Header{"CSeq": base.HeaderValue{"1"}}}) == nil, "request written")
		case 1:
			zzAssert(c.WriteResponse(&base.Response{StatusCode: base.StatusOK, StatusMessage: "OK", Header: base.Header{"CSeq": base.HeaderValue{"1"}}}) == nil, "response written")
		default:
			chans[i] = int(zzU8("channel"))
			pls[i] = zzBytes("payload", 0, 2)
			zzAssert(c.WriteInterleavedFrame(&base.InterleavedFrame{Channel: chans[i], Payload: pls[i]}, make([]byte, 16)) == nil, "frame written")
		}
	}
	zzAssert(wire.writes == N, "every element is handed to the connection in exactly one Write")
	stream := wire.buf.Bytes()
	split := 0
	if zzParam("SPLIT", 0) == 1 {
		split = zzInt("split")
		zzAssume(split >= 1)
		zzAssume(split <= len(stream)-1)
		split = zzConcretize(split)
	}
	rc := NewConn(bufio.NewReader(&zzSplitReader{data: stream, split: split}), nil)
	for i := 0; i < N; i++ {
		el, err := rc.Read()
		zzAssert(err == nil, "element is read back")
		if err != nil {
			return
		}
		switch kinds[i] {
		case 0:
			req, ok := el.(*base.Request)
			zzAssert(ok, "a request is read back as a request")
			if ok {
				zzAssert(req.Method == zzMethods[mis[i]], "method preserved")
				zzAssert(req.URL != nil && req.URL.String() == "rtsp://host/p", "url preserved")
			}
		case 1:
			res, ok := el.(*base.Response)
			zzAssert(ok, "a response is read back as a response")
			if ok {
				zzAssert(res.StatusCode == base.StatusOK, "status preserved")
			}
		default:
			fr, ok := el.(*base.InterleavedFrame)
			zzAssert(ok, "a frame is read back as a frame")
			if ok {
				zzAssert(fr.Channel == chans[i], "channel preserved")
				zzAssert(string(fr.Payload) == string(pls[i]), "payload preserved")
			}
		}
	}
	zzCover("done", true)
}
