package rtpmjpeg

import "github.com/pion/rtp"

// C07 (M-JPEG): from ANY decoder state an intact image A then an intact image B:
// B is returned at its last packet with the same dimensions, tables and data,
// only "more packets needed" before.
func ZzC07MJPEG() {
	P := zzParam("P", 6)
	max := zzConcretize(zzIntIn("max", zzParam("MLO", 144), zzParam("MHI", 146)))
	d := &Decoder{}
	d.firstPacketReceived = zzBool("first")
	nf := zzConcretize(zzIntIn("nfrag", 0, 2))
	for i := 0; i < nf; i++ {
		f := zzBytes("frag", 1, 3)
		d.fragments = append(d.fragments, f)
		d.fragmentsSize += len(f)
	}
	if nf > 0 {
		d.firstJpegHeader = &headerJPEG{Type: zzU8("hdrtype") & 0x3f, Quantization: 255, Width: 8, Height: 8}
		d.quantizationTables = [][]byte{zzBytes("oldtable", 64, 64)}
	}
	seq0, ssrc := zzU16("seq0"), uint32(0x11223344)
	e := &Encoder{SSRC: &ssrc, InitialSequenceNumber: &seq0, PayloadMaxSize: max}
	zzAssert(e.Init() == nil, "encoder init")
	a := zzJPEG(P)
	pa, _ := e.Encode(a.bytes)
	for _, p := range pa {
		d.Decode(p)
	}
	b := zzJPEG(P)
	pb, err := e.Encode(b.bytes)
	zzAssert(err == nil, "B encodes")
	for i, p := range pb {
		out, derr := d.Decode(p)
		if i < len(pb)-1 {
			zzAssert(derr == ErrMorePacketsNeeded, "B: only 'more packets needed' before its last packet")
			continue
		}
		zzAssert(derr == nil, "B: returned at its last packet")
		if derr == nil {
			zzCheckImage(out, b, "B")
		}
	}
	zzAssert(zzInv(d), "decoder accounting invariant re-established")
	zzCover("B fragmented", len(pb) > 1)
	zzCover("B single packet", len(pb) == 1)
}

// C08 (bounded memory, M-JPEG): after ANY number of completed images - whatever
// type / Q / dimensions the hostile packets carried, each one different - the
// decoder retains no more than the tables of one image (2 x 64 bytes) plus the
// per-image bookkeeping: nothing accumulates from image to image.
func ZzC08MJPEGRetained() {
	d := &Decoder{}
	zzAssert(d.Init() == nil, "decoder init")
	K := zzParam("K", 3)
	for k := 0; k < K; k++ {
		// a complete single-packet frame with static quantisation (Q < 100) and an arbitrary header
		hdr := zzBytes("jpeghdr", 8, 8)
		zzAssume(zzAnd(hdr[1] == 0, zzAnd(hdr[2] == 0, hdr[3] == 0)))
		zzAssume(hdr[4] <= 63)
		zzAssume(hdr[5] == uint8(zzParam("Q", 50)+k)) // static quantisation, a different Q for every image
		pl := append(append([]byte(nil), hdr...), zzBytes("scan", 2, 4)...)
		_, err := d.Decode(&rtp.Packet{Header: rtp.Header{Marker: true}, Payload: pl})
		zzAssert(err == nil, "complete frame decoded")
		zzAssert(zzRetained(d) <= 128+64, "retained bytes stay within the tables of one image, however many images were decoded")
	}
	zzCover("done", true)
}
