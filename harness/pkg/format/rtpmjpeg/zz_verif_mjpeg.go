package rtpmjpeg

import "github.com/pion/rtp"

// a baseline JPEG with the structure RTP/M-JPEG can carry: SOI, one DQT segment
// with two 8-bit tables in slots (idA, idB), SOF0 (8-bit, 3 components, 4:2:2
// or 4:2:0), SOS, entropy-coded data, EOI. Tables, dimensions (multiples of 8,
// below 2040), sampling type, table slots and data are symbolic.
type zzImage struct {
	bytes    []byte
	tables   [2][]byte // by ascending slot number
	w8, h8   uint8
	typ      uint8
	data     []byte // entropy-coded data including the final EOI marker
}

func zzJPEG(P int) *zzImage {
	im := &zzImage{}
	ids := [][2]byte{{0, 1}, {1, 0}, {1, 2}, {0, 2}, {2, 3}, {0, 3}}[zzConcretize(zzIntIn("slots", 0, zzParam("NSLOTS", 6)-1))]
	ta, tb := zzBytes("tableA", 64, 64), zzBytes("tableB", 64, 64)
	im.w8, im.h8 = zzU8("width8"), zzU8("height8")
	zzAssume(zzAnd(im.w8 >= 1, im.w8 < 255))
	zzAssume(zzAnd(im.h8 >= 1, im.h8 < 255))
	samp := byte(0x21)
	if zzBool("type1") {
		samp = 0x22
		im.typ = 1
	}
	b := []byte{0xFF, 0xD8, 0xFF, 0xDB, 0x00, 0x84, ids[0]}
	b = append(b, ta...)
	b = append(b, ids[1])
	b = append(b, tb...)
	w, h := int(im.w8)*8, int(im.h8)*8
	b = append(b, 0xFF, 0xC0, 0x00, 0x11, 0x08, byte(h>>8), byte(h), byte(w>>8), byte(w), 0x03,
		0x01, samp, ids[0], 0x02, 0x11, ids[1], 0x03, 0x11, ids[1])
	b = append(b, 0xFF, 0xDA, 0x00, 0x0C, 0x03, 0x01, 0x00, 0x02, 0x11, 0x03, 0x11, 0x00, 0x3F, 0x00)
	scan := zzBytes("scan", 1, P)
	im.data = append(append([]byte(nil), scan...), 0xFF, 0xD9)
	b = append(b, im.data...)
	im.bytes = b
	if ids[0] < ids[1] {
		im.tables = [2][]byte{ta, tb}
	} else {
		im.tables = [2][]byte{tb, ta}
	}
	return im
}

// the image rebuilt by the decoder: SOI, DQT (tables in slots 0..n-1), SOF0,
// four Huffman tables, SOS, data
func zzCheckImage(out []byte, im *zzImage, tag string) {
	zzAssert(len(out) > 155+len(im.data), tag+": rebuilt image has headers and data")
	if len(out) <= 155+len(im.data) {
		return
	}
	zzAssert(out[0] == 0xFF && out[1] == 0xD8 && out[2] == 0xFF && out[3] == 0xDB && out[4] == 0x00 && out[5] == 0x84, tag+": SOI + DQT with two tables")
	zzAssert(zzBytesEq(out[7:71], im.tables[0]), tag+": first quantisation table preserved")
	zzAssert(zzBytesEq(out[72:136], im.tables[1]), tag+": second quantisation table preserved")
	zzAssert(out[136] == 0xFF && out[137] == 0xC0, tag+": SOF0 follows")
	w, h := int(im.w8)*8, int(im.h8)*8
	zzAssert(int(out[141])<<8|int(out[142]) == h && int(out[143])<<8|int(out[144]) == w, tag+": dimensions preserved")
	zzAssert((out[147] == 0x22) == (im.typ == 1), tag+": sampling type preserved")
	zzAssert(zzBytesEq(out[len(out)-len(im.data):], im.data), tag+": entropy-coded data preserved")
}

// C03 + C06 (M-JPEG): K consecutive images through the same encoder / decoder:
// payload <= limit, numbering, marker on the last packet only, payload type 26,
// "more packets needed" before the last packet, and at it a JPEG with the same
// dimensions, sampling type, quantisation tables and entropy-coded data.
func ZzC03C06MJPEG() {
	P := zzParam("P", 12)
	K := zzParam("K", 1)
	max := zzConcretize(zzIntIn("max", zzParam("MLO", 142), zzParam("MHI", 146)))
	seq0, ssrc := zzU16("seq0"), zzU32("ssrc")
	e := &Encoder{SSRC: &ssrc, InitialSequenceNumber: &seq0, PayloadMaxSize: max}
	zzAssert(e.Init() == nil, "encoder init")
	d := &Decoder{}
	zzAssert(d.Init() == nil, "decoder init")
	seq := seq0
	for call := 0; call < K; call++ {
		im := zzJPEG(P)
		orig := append([]byte(nil), im.bytes...)
		pkts, err := e.Encode(im.bytes)
		zzAssert(err == nil, "encode returns no error")
		zzAssert(len(pkts) >= 1, "at least one packet")
		ts := zzU32("ts")
		for i, p := range pkts {
			zzAssert(len(p.Payload) <= max, "payload <= PayloadMaxSize")
			zzAssert(p.SequenceNumber == seq, "sequence numbers +1 mod 2^16")
			seq++
			zzAssert(p.SSRC == ssrc, "ssrc")
			zzAssert(p.PayloadType == 26, "payload type")
			zzAssert(p.Marker == (i == len(pkts)-1), "marker on the last packet only")
			p.Timestamp = ts
			out, derr := d.Decode(p)
			if i < len(pkts)-1 {
				zzAssert(derr == ErrMorePacketsNeeded, "more packets needed before the last packet")
				continue
			}
			zzAssert(derr == nil, "image returned at the last packet")
			if derr == nil {
				zzCheckImage(out, im, "round trip")
			}
		}
		zzAssert(zzBytesEq(orig, im.bytes), "input image untouched")
		zzCover("fragmented", len(pkts) > 1)
		zzCover("single packet", len(pkts) == 1)
	}
}

var _ = rtp.Packet{}
