package rtpmpegts

import "github.com/pion/rtp"

func zzTS(name string) []byte {
	b := zzBytes(name, 188, 188)
	zzAssume(b[0] == 0x47)
	return b
}

// MPEG-TS: groups of 188-byte packets; each RTP packet decodes on its own and
// the concatenation of the decoded groups is the input list.
func ZzC03C06MPEGTS() {
	N := zzParam("N", 3)
	K := zzParam("K", 1)
	max := zzIntIn("max", 188, zzParam("MHI", 600))
	seq0, ssrc := zzU16("seq0"), zzU32("ssrc")
	e := &Encoder{SSRC: &ssrc, InitialSequenceNumber: &seq0, PayloadMaxSize: max}
	zzAssert(e.Init() == nil, "encoder init")
	d := &Decoder{}
	zzAssert(d.Init() == nil, "decoder init")
	seq := seq0
	for call := 0; call < K; call++ {
		n := zzConcretize(zzIntIn("n", 1, N))
		ts := make([][]byte, n)
		for i := range ts {
			ts[i] = zzTS("ts")
		}
		pkts, err := e.Encode(ts)
		zzAssert(err == nil, "encode returns no error")
		zzAssert(len(pkts) >= 1, "at least one packet")
		pos := 0
		for _, p := range pkts {
			zzAssert(len(p.Payload) <= max, "payload <= PayloadMaxSize")
			zzAssert(p.SequenceNumber == seq, "sequence numbers +1 mod 2^16")
			seq++
			zzAssert(p.SSRC == ssrc, "ssrc")
			zzAssert(p.PayloadType == 33, "payload type 33 (mandated)")
			zzAssert(p.Version == 2, "version")
			out, err := d.Decode(p)
			zzAssert(err == nil, "packet decodes")
			zzAssert(len(out) >= 1, "at least one TS packet per RTP packet")
			zzAssert(pos+len(out) <= n, "decoded TS packets stay inside the input")
			if pos+len(out) <= n {
				for j := range out {
					zzAssert(zzBytesEq(out[j], ts[pos+j]), "TS packet identical, same position")
				}
			}
			pos += len(out)
		}
		zzAssert(pos == n, "all TS packets delivered")
		zzCover("more than one packet", len(pkts) > 1)
		zzCover("single packet", len(pkts) == 1)
	}
	zzInputsUnmodified()
	zzAssertMustFail(max > 400, "twin: limit always > 400")
}

func ZzC08MPEGTS() {
	d := &Decoder{}
	d.Init()
	for k := 0; k < 2; k++ {
		pkt := &rtp.Packet{Header: rtp.Header{SequenceNumber: zzU16("seq"), Timestamp: zzU32("ts"), Marker: zzBool("marker")},
			Payload: zzBytes("payload", 0, zzParam("P", 400))}
		out, err := d.Decode(pkt)
		if err == nil {
			total := 0
			for _, t := range out {
				zzAssert(len(t) == 188, "every returned TS packet has 188 bytes")
				total += len(t)
				zzOwn(t, "ts")
			}
			zzAssert(total == len(pkt.Payload), "returned bytes = packet bytes")
		}
		zzOwnedUnmodified()
		zzCover("frame returned", err == nil)
		zzCover("error returned", err != nil)
	}
}
