package rtpfragmented

import (
	"github.com/bluenviron/mediacommon/v2/pkg/codecs/mpeg4video"
	"github.com/pion/rtp"
)

func zzEncoder(max int, seq0 uint16, ssrc uint32, pt uint8) *Encoder {
	e := &Encoder{PayloadType: pt, SSRC: &ssrc, InitialSequenceNumber: &seq0, PayloadMaxSize: max}
	zzAssert(e.Init() == nil, "encoder init")
	return e
}

// C06: size limit, numbering, marker, identifiers, inputs untouched.
func ZzC06Fragmented() {
	P := zzParam("P", 24)
	K := zzParam("K", 2)
	max := zzIntIn("max", zzParam("MLO", 1), zzParam("MHI", 12))
	seq0, ssrc, pt := zzU16("seq0"), zzU32("ssrc"), zzU8("pt")
	e := zzEncoder(max, seq0, ssrc, pt)
	seq := seq0
	for call := 0; call < K; call++ {
		frame := zzBytes("frame", 1, P)
		pkts, err := e.Encode(frame)
		zzAssert(err == nil, "encode returns no error")
		zzAssert(len(pkts) >= 1, "at least one packet")
		for i, p := range pkts {
			zzAssert(len(p.Payload) <= max, "payload <= PayloadMaxSize")
			zzAssert(len(p.Payload) >= 1, "payload not empty")
			zzAssert(p.SequenceNumber == seq, "sequence numbers +1 mod 2^16")
			seq++
			zzAssert(p.SSRC == ssrc, "ssrc")
			zzAssert(p.PayloadType == pt, "payload type")
			zzAssert(p.Version == 2, "version")
			zzAssert(p.Marker == (i == len(pkts)-1), "marker on the last packet only")
		}
		zzCover("more than one packet", len(pkts) > 1)
		zzCover("single packet", len(pkts) == 1)
	}
	zzInputsUnmodified()
	zzAssertMustFail(max > 6, "twin: limit always > 6")
}

// C03: decode(encode(frame)) == frame, K consecutive frames.
func ZzC03Fragmented() {
	P := zzParam("P", 24)
	K := zzParam("K", 2)
	max := zzIntIn("max", zzParam("MLO", 1), zzParam("MHI", 12))
	e := zzEncoder(max, zzU16("seq0"), 0x11223344, 96)
	d := &Decoder{}
	zzAssert(d.Init() == nil, "decoder init")
	for call := 0; call < K; call++ {
		frame := zzBytes("frame", 1, P)
		pkts, err := e.Encode(frame)
		zzAssert(err == nil, "encode returns no error")
		for i, p := range pkts {
			out, err := d.Decode(p)
			if i < len(pkts)-1 {
				zzAssert(err == ErrMorePacketsNeeded, "more packets needed before the last packet")
				zzAssert(out == nil, "no frame before the last packet")
				continue
			}
			zzAssert(err == nil, "frame returned at the last packet")
			zzAssert(zzBytesEq(out, frame), "frame bytes identical")
		}
		zzCover("fragmented", len(pkts) > 1)
		zzCover("single packet", len(pkts) == 1)
	}
	zzAssertMustFail(max > 6, "twin: limit always > 6")
}

// arbitrary decoder state satisfying the representation invariant
// fragmentsSize == sum(len(fragments)) <= MaxFrameSize.
func zzState(maxFrag int) *Decoder {
	d := &Decoder{}
	nf := zzConcretize(zzIntIn("nfrag", 0, 2))
	for i := 0; i < nf; i++ {
		f := zzBytes("frag", 1, maxFrag)
		d.fragments = append(d.fragments, f)
		d.fragmentsSize += len(f)
	}
	d.fragmentNextSeqNum = zzU16("nextseq")
	return d
}

// C07: from ANY decoder state (whatever loss / duplication / reordering history
// produced it) an intact frame A followed by an intact frame B yields B intact,
// exactly once, at its last packet.
func ZzC07Fragmented() {
	P := zzParam("P", 12)
	max := zzConcretize(zzIntIn("max", zzParam("MLO", 3), zzParam("MHI", 8)))
	d := zzState(4)
	e := zzEncoder(max, zzU16("seq0"), 0x11223344, 96)
	a := zzBytes("frameA", 1, P)
	pa, _ := e.Encode(a)
	for _, p := range pa {
		d.Decode(p) // no panic, result unconstrained: A's predecessor may have been damaged
	}
	b := zzBytes("frameB", 1, P)
	pb, _ := e.Encode(b)
	returned := 0
	for i, p := range pb {
		out, err := d.Decode(p)
		if i < len(pb)-1 {
			zzAssert(err == ErrMorePacketsNeeded, "B: only 'more packets needed' before its last packet")
			continue
		}
		zzAssert(err == nil, "B: returned at its last packet")
		zzAssert(zzBytesEq(out, b), "B: intact")
		returned++
	}
	zzAssert(returned == 1, "B: returned exactly once")
	zzCover("stale fragments pending", len(pa) > 0)
	zzCover("B fragmented", len(pb) > 1)
}

func zzRetained(d *Decoder) int {
	n := 0
	for _, f := range d.fragments {
		n += len(f)
	}
	return n
}

// C08 (history from Init): K arbitrary packets; no panic, returned frames
// bounded and never modified afterwards, accounting invariant kept.
func ZzC08FragmentedHist() {
	P := zzParam("P", 8)
	K := zzParam("K", 3)
	d := &Decoder{}
	d.Init()
	for k := 0; k < K; k++ {
		pkt := &rtp.Packet{Header: rtp.Header{SequenceNumber: zzU16("seq"), Timestamp: zzU32("ts"), Marker: zzBool("marker")},
			Payload: zzBytes("payload", 0, P)}
		out, err := d.Decode(pkt)
		if err == nil {
			zzAssert(len(out) <= mpeg4video.MaxFrameSize, "returned frame <= MaxFrameSize")
			zzAssert(len(out) >= 1, "returned frame not empty")
			zzOwn(out, "frame")
		}
		zzAssert(zzRetained(d) == d.fragmentsSize, "accounting: fragmentsSize == sum of fragment lengths")
		zzAssert(d.fragmentsSize <= mpeg4video.MaxFrameSize, "retained <= MaxFrameSize")
		zzOwnedUnmodified()
		zzCover("frame returned", err == nil)
		zzCover("error returned", err != nil)
	}
}

// C08 (inductive step at the real cap): arbitrary pre-state with up to
// MaxFrameSize retained bytes (length-only buffers), one arbitrary packet.
func ZzC08FragmentedInd() {
	P := zzParam("P", 8)
	d := &Decoder{}
	nf := zzConcretize(zzIntIn("nfrag", 0, 2))
	for i := 0; i < nf; i++ {
		f := zzBytesLO("frag", 1, mpeg4video.MaxFrameSize)
		d.fragments = append(d.fragments, f)
		d.fragmentsSize += len(f)
	}
	zzAssume(d.fragmentsSize <= mpeg4video.MaxFrameSize)
	d.fragmentNextSeqNum = zzU16("nextseq")
	pkt := &rtp.Packet{Header: rtp.Header{SequenceNumber: zzU16("seq"), Marker: zzBool("marker")},
		Payload: zzBytesLO("payload", 0, 65535)}
	_ = P
	out, err := d.Decode(pkt)
	if err == nil {
		zzAssert(len(out) <= mpeg4video.MaxFrameSize, "returned frame <= MaxFrameSize")
	}
	zzAssert(zzRetained(d) == d.fragmentsSize, "accounting: fragmentsSize == sum of fragment lengths")
	zzAssert(d.fragmentsSize <= mpeg4video.MaxFrameSize, "retained <= MaxFrameSize")
	zzCover("cap exceeded path", err != nil)
	zzCover("frame returned", err == nil)
}

func ZzDebugInit() {
	zzAssert(ErrMorePacketsNeeded != nil, "global error initialised")
}
