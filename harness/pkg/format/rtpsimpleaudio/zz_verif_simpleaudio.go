package rtpsimpleaudio

import "github.com/pion/rtp"

// C03 + C06 for the single-packet audio format (Opus, G722, ...): one frame =
// one packet; the size limit does not apply (the encoder does not fragment).
func ZzC03C06SimpleAudio() {
	P := zzParam("P", 32)
	K := zzParam("K", 3)
	seq0, ssrc, pt := zzU16("seq0"), zzU32("ssrc"), zzU8("pt")
	e := &Encoder{PayloadType: pt, SSRC: &ssrc, InitialSequenceNumber: &seq0, PayloadMaxSize: zzIntIn("max", 1, 2000)}
	zzAssert(e.Init() == nil, "encoder init")
	d := &Decoder{}
	zzAssert(d.Init() == nil, "decoder init")
	seq := seq0
	for call := 0; call < K; call++ {
		frame := zzBytes("frame", 1, P)
		p, err := e.Encode(frame)
		zzAssert(err == nil, "encode returns no error")
		zzAssert(p.SequenceNumber == seq, "sequence numbers +1 mod 2^16")
		seq++
		zzAssert(p.SSRC == ssrc, "ssrc")
		zzAssert(p.PayloadType == pt, "payload type")
		zzAssert(p.Version == 2, "version")
		out, err := d.Decode(p)
		zzAssert(err == nil, "frame returned")
		zzAssert(zzBytesEq(out, frame), "frame bytes identical")
	}
	zzInputsUnmodified()
	zzCover("done", true)
	zzAssertMustFail(seq0 != 65535, "twin: sequence never starts at the wrap point")
}

// C08: arbitrary packets: no panic, nothing retained, output stable.
func ZzC08SimpleAudio() {
	P := zzParam("P", 16)
	d := &Decoder{}
	d.Init()
	for k := 0; k < 2; k++ {
		pkt := &rtp.Packet{Header: rtp.Header{SequenceNumber: zzU16("seq"), Timestamp: zzU32("ts"), Marker: zzBool("marker")},
			Payload: zzBytes("payload", 0, P)}
		out, err := d.Decode(pkt)
		if err == nil {
			zzAssert(len(out) >= 1, "returned frame not empty")
			zzAssert(len(out) <= len(pkt.Payload), "returned frame no larger than the packet")
			zzOwn(out, "frame")
		}
		zzOwnedUnmodified()
		zzCover("frame returned", err == nil)
		zzCover("error returned", err != nil)
	}
}
