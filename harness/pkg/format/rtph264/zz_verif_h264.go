package rtph264

import "github.com/pion/rtp"

// valid H264 NALU: type not an aggregation/fragmentation type, no start code
// (00 00 01) inside — guaranteed for real NALUs by emulation prevention.
func zzNALU(name string, maxLen int) []byte {
	b := zzBytes(name, 1, maxLen)
	typ := b[0] & 0x1F
	zzAssume(zzOr(typ < 24, typ > 29))
	zzAssume(b[0]&0x80 == 0) // forbidden_zero_bit
	ok := true
	for i := 0; i+2 < maxLen; i++ {
		bad := zzAnd(zzAnd(zzAt(b, i) == 0, zzAt(b, i+1) == 0), zzAt(b, i+2) <= 1)
		ok = zzAnd(ok, zzImplies(i+2 < len(b), !bad))
	}
	zzAssume(ok)
	return b
}

func zzEncoder(max int, seq0 uint16, ssrc uint32, pt uint8) *Encoder {
	e := &Encoder{PayloadType: pt, SSRC: &ssrc, InitialSequenceNumber: &seq0, PayloadMaxSize: max, PacketizationMode: 1}
	zzAssert(e.Init() == nil, "encoder init")
	return e
}

// C06: size limit, numbering, marker, identifiers, inputs untouched.
func ZzC06H264() {
	P := zzParam("P", 16)
	N := zzParam("N", 2)
	K := zzParam("K", 2)
	max := zzIntIn("max", zzParam("MLO", 5), zzParam("MHI", 12))
	seq0, ssrc, pt := zzU16("seq0"), zzU32("ssrc"), zzU8("pt")
	e := zzEncoder(max, seq0, ssrc, pt)
	seq := seq0
	for call := 0; call < K; call++ {
		au := make([][]byte, N)
		for i := range au {
			au[i] = zzBytes("nalu", 1, P)
		}
		pkts, err := e.Encode(au)
		zzAssert(err == nil, "encode returns no error")
		zzAssert(len(pkts) >= 1, "at least one packet")
		for i, p := range pkts {
			zzAssert(len(p.Payload) <= max, "payload <= PayloadMaxSize")
			zzAssert(p.SequenceNumber == seq, "sequence numbers +1 mod 2^16")
			seq++
			zzAssert(p.SSRC == ssrc, "ssrc")
			zzAssert(p.PayloadType == pt, "payload type")
			zzAssert(p.Version == 2, "version")
			zzAssert(p.Marker == (i == len(pkts)-1), "marker on the last packet only")
		}
		zzCover("more than one packet", len(pkts) > 1)
		zzCover("single packet", len(pkts) == 1)
	}
	zzInputsUnmodified()
	zzAssertMustFail(max > 6, "twin: limit always > 6")
}

// C03: decode(encode(au)) == au, two consecutive access units.
func ZzC03H264() {
	P := zzParam("P", 16)
	N := zzParam("N", 2)
	K := zzParam("K", 2)
	max := zzConcretize(zzIntIn("max", zzParam("MLO", 5), zzParam("MHI", 12)))
	seq0 := zzU16("seq0")
	e := zzEncoder(max, seq0, 0x11223344, 96)
	d := &Decoder{PacketizationMode: 1}
	zzAssert(d.Init() == nil, "decoder init")
	for call := 0; call < K; call++ {
		au := make([][]byte, N)
		for i := range au {
			au[i] = zzNALU("nalu", P)
		}
		pkts, err := e.Encode(au)
		zzAssert(err == nil, "encode returns no error")
		ts := zzU32("ts")
		if call > 0 {
			zzAssume(ts != d.frameBufferTimestamp || d.frameBuffer == nil)
		}
		for i, p := range pkts {
			p.Timestamp = ts
			out, err := d.Decode(p)
			if i < len(pkts)-1 {
				zzAssert(err == ErrMorePacketsNeeded, "more packets needed before the last packet")
				zzAssert(out == nil, "no frame before the last packet")
				continue
			}
			zzAssert(err == nil, "frame returned at the last packet")
			zzAssert(len(out) == len(au), "same number of NALUs")
			if len(out) == len(au) {
				for j := range au {
					zzAssert(zzBytesEq(out[j], au[j]), "NALU bytes identical")
				}
			}
		}
		zzCover("fragmented", len(pkts) > 1)
		zzCover("single packet", len(pkts) == 1)
	}
}

var _ = rtp.Packet{}
