package rtpmpeg4audio

import (
	"github.com/bluenviron/mediacommon/v2/pkg/codecs/mpeg4audio"
	"github.com/pion/rtp"
)

func zzCfg() (int, int, int) {
	return zzParam("SL", 13), zzParam("IL", 3), zzParam("IDL", 3)
}

func zzEncoder(max int, seq0 uint16, ssrc uint32, pt uint8) *Encoder {
	sl, il, idl := zzCfg()
	e := &Encoder{PayloadType: pt, SizeLength: sl, IndexLength: il, IndexDeltaLength: idl, SSRC: &ssrc, InitialSequenceNumber: &seq0, PayloadMaxSize: max}
	zzAssert(e.Init() == nil, "encoder init")
	return e
}

func zzDecoder() *Decoder {
	sl, il, idl := zzCfg()
	d := &Decoder{SizeLength: sl, IndexLength: il, IndexDeltaLength: idl}
	zzAssert(d.Init() == nil, "decoder init")
	return d
}

// access units: 1..P bytes; the first one must not look like an ADTS header
// (sync word FF Fx) — raw AAC access units never do in RTP (mpeg4-generic).
func zzAUs(name string, P int) [][]byte {
	n := zzConcretize(zzIntIn("naus", 1, zzParam("N", 2)))
	aus := make([][]byte, n)
	for i := range aus {
		aus[i] = zzBytes(name, 1, P)
		zzAssume(aus[i][0] != 0xFF)
	}
	return aus
}

// C03 + C06: a group of access units is packetised into aggregated and/or
// fragmented packets; decoding the packets in order returns exactly the access
// units, in order, each packet group completing at its marker packet.
func ZzC03C06MPEG4Audio() {
	P := zzParam("P", 10)
	K := zzParam("K", 1)
	max := zzConcretize(zzIntIn("max", zzParam("MLO", 6), zzParam("MHI", 12)))
	seq0, ssrc, pt := zzU16("seq0"), zzU32("ssrc"), zzU8("pt")
	e := zzEncoder(max, seq0, ssrc, pt)
	d := zzDecoder()
	seq := seq0
	for call := 0; call < K; call++ {
		aus := zzAUs("au", P)
		pkts, err := e.Encode(aus)
		zzAssert(err == nil, "encode returns no error")
		zzAssert(len(pkts) >= 1, "at least one packet")
		pos := 0
		for _, p := range pkts {
			zzAssert(len(p.Payload) <= max, "payload <= PayloadMaxSize")
			zzAssert(p.SequenceNumber == seq, "sequence numbers +1 mod 2^16")
			seq++
			zzAssert(p.SSRC == ssrc, "ssrc")
			zzAssert(p.PayloadType == pt, "payload type")
			zzAssert(p.Version == 2, "version")
			out, err := d.Decode(p)
			if !p.Marker {
				zzAssert(err == ErrMorePacketsNeeded, "more packets needed inside a fragmented access unit")
				continue
			}
			zzAssert(err == nil, "access units returned at the marker packet")
			zzAssert(pos+len(out) <= len(aus), "decoded access units stay inside the input")
			if err == nil && pos+len(out) <= len(aus) {
				for j := range out {
					zzAssert(zzBytesEq(out[j], aus[pos+j]), "access unit identical, same position")
				}
			}
			pos += len(out)
		}
		zzAssert(pos == len(aus), "all access units delivered")
		zzCover("more than one packet", len(pkts) > 1)
		zzCover("single packet", len(pkts) == 1)
	}
	zzInputsUnmodified()
}

func zzInv(d *Decoder) bool {
	n := 0
	for _, f := range d.fragments {
		n += len(f)
	}
	return zzAnd(n == d.fragmentsSize, d.fragmentsSize <= mpeg4audio.MaxAccessUnitSize)
}

// C08: arbitrary packets, decoder parameters as a hostile peer may set them
// through SDP (SizeLength / IndexLength / IndexDeltaLength are case-split by
// the SL/IL/IDL parameters of the run).
func ZzC08MPEG4AudioHist() {
	P := zzParam("P", 10)
	K := zzParam("K", 2)
	d := zzDecoder()
	for k := 0; k < K; k++ {
		pkt := &rtp.Packet{Header: rtp.Header{SequenceNumber: zzU16("seq"), Timestamp: zzU32("ts"), Marker: zzBool("marker")},
			Payload: zzBytes("payload", 0, P)}
		// AU-headers-length below 256 bits (stated bound: the header loops run
		// once per declared AU header, up to 65535/SizeLength times)
		zzAssume(zzAt(pkt.Payload, 0) == 0)
		out, err := d.Decode(pkt)
		if err == nil {
			total := 0
			for _, u := range out {
				total += len(u)
				zzOwn(u, "au")
			}
			zzAssert(total <= mpeg4audio.MaxAccessUnitSize+len(pkt.Payload), "returned access units within the documented maximum")
		}
		zzAssert(zzInv(d), "decoder accounting invariant")
		zzOwnedUnmodified()
		zzCover("returned", err == nil)
		zzCover("error", err != nil)
	}
}

// C07: from ANY decoder state, after one intact group of access units A, an
// intact group B is returned intact exactly once (at its marker packets), with
// only "more packets needed" inside a fragmented access unit.
func ZzC07MPEG4Audio() {
	P := zzParam("P", 8)
	max := zzConcretize(zzIntIn("max", zzParam("MLO", 6), zzParam("MHI", 10)))
	d := zzDecoder()
	d.firstAUParsed = true
	nf := zzConcretize(zzIntIn("nfrag", 0, 2))
	for i := 0; i < nf; i++ {
		f := zzBytes("frag", 1, 3)
		d.fragments = append(d.fragments, f)
		d.fragmentsSize += len(f)
	}
	d.fragmentNextSeqNum = zzU16("nextseq")
	e := zzEncoder(max, zzU16("seq0"), 0x11223344, 96)
	a := zzAUs("auA", P)
	pa, _ := e.Encode(a)
	for _, p := range pa {
		d.Decode(p)
	}
	b := zzAUs("auB", P)
	pb, _ := e.Encode(b)
	pos := 0
	for _, p := range pb {
		out, err := d.Decode(p)
		if !p.Marker {
			zzAssert(err == ErrMorePacketsNeeded, "B: only 'more packets needed' inside a fragmented access unit")
			continue
		}
		zzAssert(err == nil, "B: access units returned at the marker packet")
		zzAssert(pos+len(out) <= len(b), "B: decoded access units stay inside the input")
		if err == nil && pos+len(out) <= len(b) {
			for j := range out {
				zzAssert(zzBytesEq(out[j], b[pos+j]), "B: access unit intact")
			}
		}
		pos += len(out)
	}
	zzAssert(pos == len(b), "B: every access unit returned exactly once")
	zzAssert(zzInv(d), "decoder accounting invariant re-established")
	zzCover("stale fragments", nf > 0)
	zzCover("B in several packets", len(pb) > 1)
}
