package format

import "github.com/pion/rtp"

// C08: the PTS==DTS probes of the H264 / H265 formats look into arbitrary
// (hostile) packets: never a panic, for every payload up to P bytes.
func ZzC08PTSEqualsDTS() {
	P := zzParam("P", 12)
	pkt := &rtp.Packet{Header: rtp.Header{Marker: zzBool("marker")}, Payload: zzBytes("payload", 0, P)}
	h4 := &H264{PayloadTyp: 96, PacketizationMode: 1}
	r1 := h4.PTSEqualsDTS(pkt)
	h5 := &H265{PayloadTyp: 96}
	r2 := h5.PTSEqualsDTS(pkt)
	zzCover("h264 true", r1)
	zzCover("h264 false", !r1)
	zzCover("h265 true", r2)
	zzCover("h265 false", !r2)
	zzInputsUnmodified()
}
