package rtplpcm

import "github.com/pion/rtp"

// LPCM: sample blocks are split at sample boundaries; every packet decodes on
// its own, and the concatenation of the decoded payloads is the input.
func ZzC03C06LPCM() {
	P := zzParam("P", 24)
	K := zzParam("K", 2)
	depth := zzParam("DEPTH", 16)
	ch := zzParam("CH", 2)
	ss := depth * ch / 8
	max := zzIntIn("max", ss, zzParam("MHI", 14))
	seq0, ssrc, pt := zzU16("seq0"), zzU32("ssrc"), zzU8("pt")
	e := &Encoder{PayloadType: pt, BitDepth: depth, ChannelCount: ch, SSRC: &ssrc, InitialSequenceNumber: &seq0, PayloadMaxSize: max}
	zzAssert(e.Init() == nil, "encoder init")
	d := &Decoder{BitDepth: depth, ChannelCount: ch}
	zzAssert(d.Init() == nil, "decoder init")
	seq := seq0
	for call := 0; call < K; call++ {
		ns := zzIntIn("nsamples", 1, P/ss)
		samples := zzBytes("samples", ss, (P/ss)*ss)
		zzAssume(len(samples) == ns*ss) // whole samples (the encoder's contract)
		pkts, err := e.Encode(samples)
		zzAssert(err == nil, "encode returns no error")
		zzAssert(len(pkts) >= 1, "at least one packet")
		pos := 0
		for _, p := range pkts {
			zzAssert(len(p.Payload) <= max, "payload <= PayloadMaxSize")
			zzAssert(len(p.Payload)%ss == 0, "packets hold whole samples")
			zzAssert(p.SequenceNumber == seq, "sequence numbers +1 mod 2^16")
			seq++
			zzAssert(p.SSRC == ssrc, "ssrc")
			zzAssert(p.PayloadType == pt, "payload type")
			zzAssert(p.Version == 2, "version")
			zzAssert(p.Timestamp == uint32(pos/ss), "timestamp offset = samples before this packet")
			out, err := d.Decode(p)
			zzAssert(err == nil, "packet decodes")
			zzAssert(len(out) >= 1, "decoded block not empty")
			zzAssert(pos+len(out) <= len(samples), "decoded bytes stay inside the input")
			if pos+len(out) <= len(samples) {
				zzAssert(zzBytesEq(out, samples[pos:pos+len(out)]), "decoded block identical to the input at its position")
			}
			pos += len(out)
		}
		zzAssert(pos == len(samples), "all samples delivered")
		zzCover("more than one packet", len(pkts) > 1)
		zzCover("single packet", len(pkts) == 1)
	}
	zzInputsUnmodified()
	zzAssertMustFail(max > 6, "twin: limit always > 6")
}

func ZzC08LPCM() {
	P := zzParam("P", 16)
	d := &Decoder{BitDepth: 16, ChannelCount: 2}
	d.Init()
	for k := 0; k < 2; k++ {
		pkt := &rtp.Packet{Header: rtp.Header{SequenceNumber: zzU16("seq"), Timestamp: zzU32("ts"), Marker: zzBool("marker")},
			Payload: zzBytes("payload", 0, P)}
		out, err := d.Decode(pkt)
		if err == nil {
			zzAssert(len(out) >= 1, "returned block not empty")
			zzAssert(len(out) <= len(pkt.Payload), "returned block no larger than the packet")
			zzOwn(out, "frame")
		}
		zzOwnedUnmodified()
		zzCover("frame returned", err == nil)
		zzCover("error returned", err != nil)
	}
}
