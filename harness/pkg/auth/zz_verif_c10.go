package auth

import (
	"github.com/bluenviron/gortsplib/v5/pkg/base"
)

func zzPrintable(name string, min, max int, allowColon bool) string {
	s := zzString(name, min, max)
	ok := true
	for i := 0; i < max; i++ {
		c := zzSAt(s, i)
		good := zzAnd(zzAnd(c >= 0x20, c < 0x7f), c != '"')
		if !allowColon {
			good = zzAnd(good, c != ':')
		}
		ok = zzAnd(ok, zzImplies(i < len(s), good))
	}
	zzAssume(ok)
	return s
}

// C10 (Basic): credentials produced by the client side from the right user and
// password are accepted for every user name (no ':' or '"') and every printable
// password, including ':'; a different password or user is rejected.
func ZzC10Basic() {
	user := zzPrintable("user", 1, zzParam("UL", 3), false)
	pass := zzPrintable("pass", 0, zzParam("PL", 3), true)
	se := &Sender{WWWAuth: base.HeaderValue{`Basic realm="r"`}, User: user, Pass: pass}
	zzAssert(se.Initialize() == nil, "sender initialises on a Basic challenge")
	req := &base.Request{Method: base.Describe, URL: &base.URL{Scheme: "rtsp", Host: "h", Path: "/p"}}
	se.AddAuthorization(req)
	err := Verify(req, user, pass, []VerifyMethod{VerifyMethodBasic}, "r", "n")
	zzAssert(err == nil, "basic: right credentials are accepted")
	// soundness: any other password / user is rejected
	other := zzPrintable("otherpass", 0, zzParam("PL", 3), true)
	zzAssume(other != pass)
	zzAssert(Verify(req, user, other, []VerifyMethod{VerifyMethodBasic}, "r", "n") != nil, "basic: a different password is rejected")
	otherUser := zzPrintable("otheruser", 1, zzParam("UL", 3), false)
	zzAssume(otherUser != user)
	zzAssert(Verify(req, otherUser, pass, []VerifyMethod{VerifyMethodBasic}, "r", "n") != nil, "basic: a different user is rejected")
	// any other pair, both fields free, is rejected too (a shifted boundary between
	// user and password must not be accepted)
	u2 := zzPrintable("user2", 0, zzParam("UL", 3)+1, false)
	p2 := zzPrintable("pass2", 0, zzParam("PL", 3)+1, true)
	zzAssume(zzOr(u2 != user, p2 != pass))
	zzAssert(Verify(req, u2, p2, []VerifyMethod{VerifyMethodBasic}, "r", "n") != nil, "basic: any other (user, password) pair is rejected")
	// scheme not enabled
	zzAssert(Verify(req, user, pass, []VerifyMethod{VerifyMethodDigestMD5}, "r", "n") != nil, "basic: rejected when Basic is not among the enabled methods")
	zzCover("password with colon", zzSAt(pass, 0) == ':')
	zzAssertMustFail(pass != ":", "twin: the password is never a single colon")
}
