package auth

import (
	"github.com/bluenviron/gortsplib/v5/pkg/base"
	"github.com/bluenviron/gortsplib/v5/pkg/headers"
)

// C10 (soundness on the URL): a correctly signed Digest authorization is accepted
// only when the URI it was computed for is the request URL (absolute form), its
// exact request-URI (relative form), or - for SETUP only - the base URL of the
// stream with or without trailing slash. A URI that is merely a tail or a prefix
// of the request URL, another resource, or the base-URL form on a method other
// than SETUP is rejected. Request URLs and candidate URIs come from a table;
// method symbolic over {DESCRIBE, SETUP, PLAY}; hashes uninterpreted.
func ZzC10URLMatch() {
	type cse struct {
		url     *base.URL
		uri     string
		any     bool // accepted for every method
		onSetup bool // accepted for SETUP only
	}
	u1 := &base.URL{Scheme: "rtsp", Host: "h", Path: "/private/cam1"}
	u2 := &base.URL{Scheme: "rtsp", Host: "h", Path: "/private/cam1/trackID=0"}
	u3 := &base.URL{Scheme: "rtsp", Host: "h", Path: "/private/cam1/", RawQuery: "k=v"}
	cases := []cse{
		{u1, "rtsp://h/private/cam1", true, false},
		{u1, "/private/cam1", true, false},
		{u1, "/cam1", false, false},
		{u1, "/", false, false},
		{u1, "//h/private/cam1", false, false},
		{u1, "rtsp://h/private", false, false},
		{u1, "rtsp://h/private/cam2", false, false},
		{u1, "private/cam1", false, false},
		{u2, "rtsp://h/private/cam1/trackID=0", true, false},
		{u2, "rtsp://h/private/cam1/", false, true},
		{u2, "rtsp://h/private/cam1", false, true},
		{u2, "rtsp://h/private/", false, false},
		{u2, "/trackID=0", false, false},
		{u2, "/private/cam1/trackID=0", true, false},
		{u3, "/private/cam1/?k=v", true, false},
		{u3, "/private/cam1/", false, false},
		{u3, "/?k=v", false, false},
	}
	c := cases[zzConcretize(zzIntIn("case", 0, len(cases)-1))]
	method := []base.Method{base.Describe, base.Setup, base.Play}[zzConcretize(zzIntIn("method", 0, 2))]
	user, pass, realm, nonce := "u", zzPrintable("pass", 1, 1, true), "r", "n"
	ha1 := md5Hex(user + ":" + realm + ":" + pass)
	ha2 := md5Hex(string(method) + ":" + c.uri)
	resp := md5Hex(ha1 + ":" + nonce + ":" + ha2)
	h := headers.Authorization{Method: headers.AuthMethodDigest, Username: user, Realm: realm, Nonce: nonce, URI: c.uri, Response: resp}
	req := &base.Request{Method: method, URL: c.url, Header: base.Header{"Authorization": h.Marshal()}}
	err := Verify(req, user, pass, []VerifyMethod{VerifyMethodDigestMD5}, realm, nonce)
	want := c.any || (c.onSetup && method == base.Setup)
	if want {
		zzAssert(err == nil, "digest computed for the request URL (or the documented SETUP base-URL form) is accepted")
	} else {
		zzAssert(err != nil, "digest computed for another URI is rejected")
	}
	zzCover("accepted", err == nil)
	zzCover("rejected", err != nil)
}
