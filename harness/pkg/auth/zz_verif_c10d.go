package auth

import (
	"github.com/bluenviron/gortsplib/v5/pkg/base"
)

// C10 (Digest): for a challenge issued by the server side (realm and nonce
// symbolic), the credentials computed by the client side from the right user
// and password are accepted; a different password, user, realm, nonce or
// method is rejected, and so is a digest scheme that is not enabled. The hash
// functions are uninterpreted and assumed collision-free.
func ZzC10Digest() {
	sha := zzParam("SHA256", 0) != 0
	method := VerifyMethodDigestMD5
	if sha {
		method = VerifyMethodDigestSHA256
	}
	user := zzPrintable("user", 1, zzParam("UL", 2), false)
	pass := zzPrintable("pass", 0, zzParam("PL", 2), true)
	realm := zzPrintable("realm", 1, zzParam("RL", 2), false)
	nonce := zzPrintable("nonce", 1, zzParam("NL", 2), false)
	www := GenerateWWWAuthenticate([]VerifyMethod{method}, realm, nonce)
	se := &Sender{WWWAuth: www, User: user, Pass: pass}
	zzAssert(se.Initialize() == nil, "sender initialises on the server's own challenge")
	// request URLs: with a path, without any path (only authority), without a path
	// but with a query, with a query and a trailing slash
	urlv := zzConcretize(zzIntIn("url", zzParam("URLLO", 0), zzParam("NURL", 4)-1))
	mk := func(m base.Method) *base.Request {
		u := &base.URL{Scheme: "rtsp", Host: "h", Path: "/p"}
		switch urlv {
		case 1:
			u = &base.URL{Scheme: "rtsp", Host: "h:8554"}
		case 2:
			u = &base.URL{Scheme: "rtsp", Host: "h", RawQuery: "k=v"}
		case 3:
			u = &base.URL{Scheme: "rtsp", Host: "h", Path: "/p/", RawQuery: "k=v/"}
		}
		return &base.Request{Method: m, URL: u}
	}
	req := mk(base.Describe)
	se.AddAuthorization(req)
	methods := []VerifyMethod{method}
	zzAssert(Verify(req, user, pass, methods, realm, nonce) == nil, "digest: right credentials are accepted")
	which := zzConcretize(zzIntIn("perturb", 0, 5))
	switch which {
	case 0:
		other := zzPrintable("otherpass", 0, zzParam("PL", 2), true)
		zzAssume(other != pass)
		zzAssert(Verify(req, user, other, methods, realm, nonce) != nil, "digest: a different password is rejected")
	case 1:
		other := zzPrintable("otheruser", 1, zzParam("UL", 2), false)
		zzAssume(other != user)
		zzAssert(Verify(req, other, pass, methods, realm, nonce) != nil, "digest: a different user is rejected")
	case 2:
		other := zzPrintable("otherrealm", 1, zzParam("RL", 2), false)
		zzAssume(other != realm)
		zzAssert(Verify(req, user, pass, methods, other, nonce) != nil, "digest: a different realm is rejected")
	case 3:
		other := zzPrintable("othernonce", 1, zzParam("NL", 2), false)
		zzAssume(other != nonce)
		zzAssert(Verify(req, user, pass, methods, realm, other) != nil, "digest: a different nonce is rejected")
	case 4:
		// same header replayed on another method
		req2 := mk(base.Play)
		req2.Header = req.Header
		zzAssert(Verify(req2, user, pass, methods, realm, nonce) != nil, "digest: credentials computed for another method are rejected")
	case 5:
		// digest algorithm not enabled
		otherm := VerifyMethodDigestSHA256
		if sha {
			otherm = VerifyMethodDigestMD5
		}
		zzAssert(Verify(req, user, pass, []VerifyMethod{otherm, VerifyMethodBasic}, realm, nonce) != nil, "digest: rejected when its algorithm is not enabled")
	}
	zzCover("done", true)
}
