package auth

import (
	"github.com/bluenviron/gortsplib/v5/pkg/base"
	"github.com/bluenviron/gortsplib/v5/pkg/headers"
)

// C10 (scheme admission): whatever Authorization header a client sends (Basic,
// or Digest with the algorithm field absent, MD5 or SHA-256, and a response
// computed with either hash from the right credentials), Verify accepts it
// only if the scheme the header uses is among the enabled methods. An absent
// algorithm field means MD5 (RFC 2617). The set of enabled methods is
// arbitrary (including the nil default, which stands for Basic + Digest MD5).
func ZzC10Admission() {
	const user, pass, realm, nonce = "u", "p", "r", "n"
	req := &base.Request{Method: base.Describe, URL: &base.URL{Scheme: "rtsp", Host: "h", Path: "/p"}}
	uri := req.URL.String()

	var methods []VerifyMethod
	enB, enM, enS := zzBool("enBasic"), zzBool("enMD5"), zzBool("enSHA256")
	useNil := zzBool("nilMethods")
	if useNil {
		enB, enM, enS = true, true, false
	} else {
		methods = []VerifyMethod{}
		// order of the list is arbitrary too
		if zzBool("shaFirst") {
			if enS {
				methods = append(methods, VerifyMethodDigestSHA256)
			}
			if enM {
				methods = append(methods, VerifyMethodDigestMD5)
			}
			if enB {
				methods = append(methods, VerifyMethodBasic)
			}
		} else {
			if enB {
				methods = append(methods, VerifyMethodBasic)
			}
			if enM {
				methods = append(methods, VerifyMethodDigestMD5)
			}
			if enS {
				methods = append(methods, VerifyMethodDigestSHA256)
			}
		}
	}

	h := headers.Authorization{Username: user}
	kind := zzConcretize(zzIntIn("kind", 0, 3)) // 0 basic, 1 digest no algorithm, 2 digest MD5, 3 digest SHA-256
	usedB, usedM, usedS := false, false, false
	if kind == 0 {
		h.Method = headers.AuthMethodBasic
		h.BasicPass = pass
		usedB = true
	} else {
		h.Method = headers.AuthMethodDigest
		h.Realm = realm
		h.Nonce = nonce
		h.URI = uri
		switch kind {
		case 1:
			usedM = true
		case 2:
			a := headers.AuthAlgorithmMD5
			h.Algorithm = &a
			usedM = true
		case 3:
			a := headers.AuthAlgorithmSHA256
			h.Algorithm = &a
			usedS = true
		}
		// the response is the right one for either hash
		if zzBool("responseWithSHA256") {
			h.Response = sha256Hex(sha256Hex(user+":"+realm+":"+pass) + ":" + nonce + ":" + sha256Hex(string(req.Method)+":"+uri))
		} else {
			h.Response = md5Hex(md5Hex(user+":"+realm+":"+pass) + ":" + nonce + ":" + md5Hex(string(req.Method)+":"+uri))
		}
	}
	req.Header = base.Header{"Authorization": h.Marshal()}

	err := Verify(req, user, pass, methods, realm, nonce)
	enabled := (usedB && enB) || (usedM && enM) || (usedS && enS)
	if err == nil {
		zzAssert(enabled, "credentials are accepted only when their scheme is among the enabled methods")
	}
	zzCover("accepted", err == nil)
	zzCover("refused although well-formed", err != nil)
}
