package rtptime

import (
	"math/bits"
	"time"

	"github.com/pion/rtp"
)

// (1) 64-bit continuation of 32-bit RTP timestamps: K symbolic steps of an
// ideal 64-bit clock with |step| < 2^31; the decoder sees only the low 32 bits.
func ZzC15Continuation() {
	K := zzParam("K", 4)
	T := zzI64("T0")
	d := &globalDecoderTrackData{overall: zzI64("pts0"), prev: uint32(T)}
	pts0 := d.overall
	T0 := T
	for k := 0; k < K; k++ {
		step := zzI64("step")
		zzAssume(step > -(1 << 31))
		zzAssume(step < (1 << 31))
		zzAssume(zzOr(step < 0, T <= (1<<62)-step)) // ideal clock stays inside int64
		zzAssume(zzOr(step > 0, T >= -(1<<62)-step))
		T += step
		pts := d.decode(uint32(T))
		zzAssert(pts-pts0 == T-T0, "PTS difference = accumulated signed 32-bit differences (64-bit continuation)")
	}
	zzCover("wrapped forward", uint32(T) < uint32(T0))
	zzAssertMustFail(uint32(T) >= uint32(T0), "twin: the 32-bit timestamp never wraps")
}

// (2) overflow-free rescaling: multiplyAndDivide(v,m,d) = floor(v*m/d)
// whenever the exact result fits in int63.
func ZzC15MulDiv() {
	m := int64(zzParam("M", 90000))
	d := int64(zzParam("D", 1000000000))
	v := zzI64("v")
	zzAssume(v >= 0)
	zzAssume(v < 1<<62)
	hv, lv := bits.Mul64(uint64(v), uint64(m))
	zzAssume((hv<<1 | lv>>63) < uint64(d)) // the exact quotient fits in int63
	got := multiplyAndDivide(v, m, d)
	zzAssert(zzIsFloorDiv(got, uint64(v), uint64(m), uint64(d)), "multiplyAndDivide = floor(v*m/d) (128-bit defining property)")
	if zzParam("NOTWIN", 0) == 0 {
		// vacuity guards; for two rate pairs cvc5's integer encoding proves the
		// obligation above but cannot produce the witnesses asked for here
		zzCover("large v", v > 1<<40)
		zzAssertMustFail(got == v, "twin: rescaling is the identity")
	}
}

type zzTrack struct {
	rate int
}

func (t *zzTrack) ClockRate() int                 { return t.rate }
// the marker bit of the harness packets says whether PTS equals DTS (only such
// packets may serve as reference points; B-frames do not)
func (t *zzTrack) PTSEqualsDTS(p *rtp.Packet) bool { return p.Marker }

// (3) a track that starts later is placed on the leading track's timeline:
// startPTS*rate/leadRate + elapsed*rate/1e9
func ZzC15LaterTrack() {
	r1 := zzParam("R1", 90000)
	r2 := zzParam("R2", 48000)
	lead := &zzTrack{rate: r1}
	other := &zzTrack{rate: r2}
	// three wall-clock instants, non-decreasing, nanosecond resolution
	s1, n1 := zzI64("s1"), zzI64("n1")
	s2, n2 := zzI64("s2"), zzI64("n2")
	s3, n3 := zzI64("s3"), zzI64("n3")
	zzAssume(s1 >= 1600000000)
	zzAssume(s3 <= 1600000000+36000) // at most ten hours later
	zzAssume(zzAnd(n1 >= 0, n1 < 1000000000))
	zzAssume(zzAnd(n2 >= 0, n2 < 1000000000))
	zzAssume(zzAnd(n3 >= 0, n3 < 1000000000))
	zzAssume(zzOr(s1 < s2, zzAnd(s1 == s2, n1 <= n2)))
	zzAssume(zzOr(s2 < s3, zzAnd(s2 == s3, n2 <= n3)))
	elapsed1 := (s2-s1)*1000000000 + (n2 - n1)
	elapsed2 := (s3-s1)*1000000000 + (n3 - n1)
	calls := 0
	timeNow = func() time.Time {
		calls++
		if calls == 1 {
			return time.Unix(s1, n1)
		}
		if calls == 2 {
			return time.Unix(s2, n2)
		}
		return time.Unix(s3, n3)
	}
	d := &GlobalDecoder{}
	d.Initialize()
	ts0 := zzU32("ts0")
	p0, ok0 := d.Decode(lead, &rtp.Packet{Header: rtp.Header{Timestamp: ts0, Marker: true}})
	zzAssert(ok0, "leading track decodes")
	zzAssert(p0 == 0, "leading track starts at 0")
	delta := zzI64("delta")
	zzAssume(delta >= 0)
	zzAssume(delta < 1<<31)
	if zzParam("BFRAME", 0) == 1 || zzParam("FIXDELTA", 0) == 1 {
		// (keeps the query within reach: when the reordered-frame step is added, and
		// for the rate pairs for which the fully symbolic step is not decided)
		zzAssume(delta == 90000)
	}
	p1, ok1 := d.Decode(lead, &rtp.Packet{Header: rtp.Header{Timestamp: ts0 + uint32(delta), Marker: true}})
	zzAssert(ok1, "leading track decodes (2)")
	zzAssert(p1 == delta, "leading track: PTS = signed 32-bit difference")
	if zzParam("BFRAME", 0) == 1 {
		// a packet of the leading track whose PTS differs from its DTS (B-frame): it is
		// decoded, but it must not become the reference point for other tracks
		back := int64(3003) // (a symbolic offset makes the query undecidable for cvc5's integer encoding)
		pb, okb := d.Decode(lead, &rtp.Packet{Header: rtp.Header{Timestamp: ts0 + uint32(delta) + uint32(back), Marker: false}})
		zzAssert(okb && pb == delta+back, "leading track: reordered frame decoded on the same timeline")
	}
	p2, ok2 := d.Decode(other, &rtp.Packet{Header: rtp.Header{Timestamp: zzU32("ts1"), Marker: true}})
	zzAssert(ok2, "later track decodes")
	// reference: floor(delta*r2/r1) + floor(elapsed*r2/1e9); the two floor
	// divisions are the rescaling kernel proved against its 128-bit definition
	// for every rate pair by ZzC15MulDiv, so it is used here as the lemma.
	q1 := multiplyAndDivide(delta, int64(r2), int64(r1))
	q2 := multiplyAndDivide((s3-s2)*1000000000+(n3-n2), int64(r2), 1000000000)
	zzAssert(p2 == q1+q2, "later track placed at startPTS*rate/leadRate + elapsed*rate/1e9")
	zzCover("later", elapsed2 > elapsed1)
}
