package rtpsender

import (
	"time"

	"github.com/pion/rtcp"
	"github.com/pion/rtp"

	"github.com/bluenviron/gortsplib/v5/pkg/ntp"
)

// C15 (sender side of the NTP mapping): after any series of K packets, each
// flagged "PTS equals DTS" or not (only those are usable as reference points),
// the sender report pairs the RTP timestamp and the absolute time of ONE AND THE
// SAME packet - the last flagged one - so that a receiver maps RTP time to the
// time the writer associated with it. The clock is frozen (no time elapses
// between the packets and the report), so the extrapolation term is exactly 0
// and no floating point is involved; packet and octet counts are exact.
func ZzC15SenderReport() {
	K := zzParam("K", 3)
	now := time.Date(2024, 5, 1, 10, 0, 0, 0, time.UTC)
	rs := &Sender{ClockRate: 90000, Period: time.Second, TimeNow: func() time.Time { return now }}
	rs.firstPacket = make(chan struct{})
	var refTS uint32
	var refNTP time.Time
	var refSSRC uint32
	have := false
	octets := uint32(0)
	for k := 0; k < K; k++ {
		ts := zzU32("ts")
		ssrc := zzU32("ssrc")
		pl := zzBytes("payload", 0, 3)
		abs := now.Add(-time.Duration(k+1) * 33 * time.Millisecond)
		sync := zzBool("ptsEqualsDTS")
		rs.ProcessPacket(&rtp.Packet{Header: rtp.Header{Timestamp: ts, SSRC: ssrc, SequenceNumber: zzU16("seq")}, Payload: pl}, abs, sync)
		octets += uint32(len(pl))
		if sync {
			refTS, refNTP, refSSRC, have = ts, abs, ssrc, true
		}
	}
	zzAssume(have)
	sr, ok := rs.report().(*rtcp.SenderReport)
	zzAssert(ok, "a sender report is produced")
	if ok {
		zzAssert(sr.RTPTime == refTS, "report RTP time = timestamp of the last reference packet")
		zzAssert(sr.NTPTime == ntp.Encode(refNTP), "report NTP time = absolute time of that same packet")
		zzAssert(sr.SSRC == refSSRC, "report SSRC = SSRC of the stream")
		zzAssert(sr.PacketCount == uint32(K), "packet count")
		zzAssert(sr.OctetCount == octets, "octet count")
	}
	st := rs.Stats()
	zzAssert(st != nil && st.LastRTP == refTS && st.LastNTP.Equal(refNTP), "statistics expose the same reference pair")
	zzCover("done", true)
}
