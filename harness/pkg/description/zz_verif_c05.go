package description

import (
	"github.com/bluenviron/gortsplib/v5/pkg/format"
	"github.com/bluenviron/gortsplib/v5/pkg/headers"
)

func zzAlnum(name string, min, max int) string {
	s := zzString(name, min, max)
	ok := true
	for i := 0; i < max; i++ {
		c := zzSAt(s, i)
		good := zzOr(zzAnd(c >= '0', c <= '9'), zzOr(zzAnd(c >= 'a', c <= 'z'), zzAnd(c >= 'A', c <= 'Z')))
		ok = zzAnd(ok, zzImplies(i < len(s), good))
	}
	zzAssume(ok)
	return s
}

// dynamic payload type 96..127
func zzPT() uint8 {
	pt := zzU8("pt")
	zzAssume(zzAnd(pt >= 96, pt <= 127))
	return pt
}

func zzFormat(which int) format.Format {
	switch which {
	case 0:
		return &format.Opus{PayloadTyp: zzPT(), ChannelCount: 1 + zzConcretize(zzIntIn("stereo", 0, 1))}
	case 1:
		depth := []int{8, 16, 24}[zzConcretize(zzIntIn("depth", 0, 2))]
		rate := []int{8000, 44100, 48000}[zzConcretize(zzIntIn("rate", 0, 2))]
		return &format.LPCM{PayloadTyp: zzPT(), BitDepth: depth, SampleRate: rate, ChannelCount: 1 + zzConcretize(zzIntIn("ch", 0, 1))}
	case 2:
		return &format.G711{PayloadTyp: zzPT(), MULaw: zzBool("mulaw"), SampleRate: 16000, ChannelCount: 1 + zzConcretize(zzIntIn("ch", 0, 1))}
	case 3:
		f := &format.VP8{PayloadTyp: zzPT()}
		if zzBool("hasMaxFR") {
			v := zzIntIn("maxfr", 0, 99)
			f.MaxFR = &v
		}
		return f
	case 4:
		return &format.G711{PayloadTyp: 0, MULaw: true, SampleRate: 8000, ChannelCount: 1}
	case 5:
		return &format.MPEGTS{}
	case 6:
		return &format.G722{}
	case 7:
		br := []int{16, 24, 32, 40}[zzConcretize(zzIntIn("bitrate", 0, 3))]
		return &format.G726{PayloadTyp: zzPT(), BitRate: br, BigEndian: zzBool("be")}
	case 8:
		f := &format.Speex{PayloadTyp: zzPT(), SampleRate: zzRate()}
		if zzBool("hasVBR") {
			v := zzBool("vbr")
			f.VBR = &v
		}
		return f
	case 9:
		return &format.AC3{PayloadTyp: zzPT(), SampleRate: zzRate(), ChannelCount: zzConcretize(zzIntIn("ch", 1, 6))}
	case 10:
		f := &format.VP9{PayloadTyp: zzPT()}
		f.MaxFR = zzOptInt("maxfr")
		f.MaxFS = zzOptInt("maxfs")
		f.ProfileID = zzOptInt("profile")
		return f
	case 11:
		f := &format.AV1{PayloadTyp: zzPT()}
		f.LevelIdx = zzOptInt("level")
		f.Profile = zzOptInt("profile")
		f.Tier = zzOptInt("tier")
		return f
	case 12:
		return &format.KLV{PayloadTyp: zzPT()}
	case 13:
		return &format.MPEG1Audio{}
	case 14:
		return &format.MPEG1Video{}
	case 15:
		return &format.MJPEG{}
	case 16:
		return &format.H264{PayloadTyp: zzPT(), PacketizationMode: zzConcretize(zzIntIn("pm", 0, 2))}
	case 17:
		mono := zzConcretize(zzIntIn("mono", 0, 1))
		return &format.LPCM{PayloadTyp: 10 + uint8(mono), BitDepth: 16, SampleRate: 44100, ChannelCount: 2 - mono}
	default:
		return &format.Vorbis{PayloadTyp: zzPT(), SampleRate: zzRate(), ChannelCount: zzConcretize(zzIntIn("ch", 1, 2)), Configuration: zzBytes("conf", 1, 3)}
	case 19:
		// a format the library has no type for: rtpmap with or without the optional
		// encoding-parameters field
		rm := []string{"X-CODEC/8000", "X-CODEC/16000/1", "AMR-WB/16000/2", "X-CODEC/90000"}[zzConcretize(zzIntIn("rtpmap", 0, 3))]
		g := &format.Generic{PayloadTyp: zzPT(), RTPMa: rm}
		zzAssert(g.Init() == nil, "generic format initialises")
		return g
	case 20:
		// a format described without rtpmap (static payload type), with or without
		// format parameters; a dynamic payload type without rtpmap is only valid in an
		// application media and is not generated here
		pt := []uint8{34, 31}[zzConcretize(zzIntIn("ptsel", 0, 1))]
		g := &format.Generic{PayloadTyp: pt}
		if zzBool("withFMTP") {
			g.FMT = map[string]string{"k": "v"}
		}
		zzAssert(g.Init() == nil, "generic format without rtpmap initialises")
		return g
	}
}

// sample rates are drawn from the values in use (decimal conversion of a fully
// symbolic 5-digit number is beyond the solvers)
func zzRate() int {
	return []int{8000, 16000, 32000, 44100, 48000}[zzConcretize(zzIntIn("rate", 0, 4))]
}

func zzOptInt(name string) *int {
	if !zzBool("has-" + name) {
		return nil
	}
	v := zzIntIn(name, 0, 9)
	return &v
}

func zzSameOptInt(a, b *int) bool {
	if (a == nil) != (b == nil) {
		return false
	}
	return a == nil || *a == *b
}

func zzSameFormat(a, b format.Format) bool {
	switch x := a.(type) {
	case *format.Opus:
		y, ok := b.(*format.Opus)
		return ok && zzAnd(x.PayloadTyp == y.PayloadTyp, x.ChannelCount == y.ChannelCount)
	case *format.LPCM:
		y, ok := b.(*format.LPCM)
		return ok && zzAnd(zzAnd(x.PayloadTyp == y.PayloadTyp, x.BitDepth == y.BitDepth), zzAnd(x.SampleRate == y.SampleRate, x.ChannelCount == y.ChannelCount))
	case *format.G711:
		y, ok := b.(*format.G711)
		return ok && zzAnd(zzAnd(x.PayloadTyp == y.PayloadTyp, x.MULaw == y.MULaw), zzAnd(x.SampleRate == y.SampleRate, x.ChannelCount == y.ChannelCount))
	case *format.VP8:
		y, ok := b.(*format.VP8)
		if !ok || (x.MaxFR == nil) != (y.MaxFR == nil) {
			return false
		}
		if x.MaxFR != nil && *x.MaxFR != *y.MaxFR {
			return false
		}
		return x.PayloadTyp == y.PayloadTyp
	case *format.MPEGTS:
		_, ok := b.(*format.MPEGTS)
		return ok
	case *format.G722:
		_, ok := b.(*format.G722)
		return ok
	case *format.G726:
		y, ok := b.(*format.G726)
		return ok && zzAnd(x.PayloadTyp == y.PayloadTyp, zzAnd(x.BitRate == y.BitRate, x.BigEndian == y.BigEndian))
	case *format.Speex:
		y, ok := b.(*format.Speex)
		if !ok || (x.VBR == nil) != (y.VBR == nil) {
			return false
		}
		if x.VBR != nil && *x.VBR != *y.VBR {
			return false
		}
		return zzAnd(x.PayloadTyp == y.PayloadTyp, x.SampleRate == y.SampleRate)
	case *format.AC3:
		y, ok := b.(*format.AC3)
		return ok && zzAnd(x.PayloadTyp == y.PayloadTyp, zzAnd(x.SampleRate == y.SampleRate, x.ChannelCount == y.ChannelCount))
	case *format.VP9:
		y, ok := b.(*format.VP9)
		return ok && zzSameOptInt(x.MaxFR, y.MaxFR) && zzSameOptInt(x.MaxFS, y.MaxFS) && zzSameOptInt(x.ProfileID, y.ProfileID) && x.PayloadTyp == y.PayloadTyp
	case *format.AV1:
		y, ok := b.(*format.AV1)
		return ok && zzSameOptInt(x.LevelIdx, y.LevelIdx) && zzSameOptInt(x.Profile, y.Profile) && zzSameOptInt(x.Tier, y.Tier) && x.PayloadTyp == y.PayloadTyp
	case *format.KLV:
		y, ok := b.(*format.KLV)
		return ok && x.PayloadTyp == y.PayloadTyp
	case *format.MPEG1Audio:
		_, ok := b.(*format.MPEG1Audio)
		return ok
	case *format.MPEG1Video:
		_, ok := b.(*format.MPEG1Video)
		return ok
	case *format.MJPEG:
		_, ok := b.(*format.MJPEG)
		return ok
	case *format.H264:
		y, ok := b.(*format.H264)
		return ok && zzAnd(x.PayloadTyp == y.PayloadTyp, x.PacketizationMode == y.PacketizationMode) && y.SPS == nil && y.PPS == nil
	case *format.Generic:
		y, ok := b.(*format.Generic)
		return ok && zzAnd(x.PayloadTyp == y.PayloadTyp, x.ClockRat == y.ClockRat) && x.RTPMa == y.RTPMa && len(x.FMT) == len(y.FMT)
	case *format.Vorbis:
		y, ok := b.(*format.Vorbis)
		return ok && zzAnd(x.PayloadTyp == y.PayloadTyp, zzAnd(x.SampleRate == y.SampleRate, x.ChannelCount == y.ChannelCount)) && zzBytesEq(x.Configuration, y.Configuration)
	}
	return false
}

// C05 (struct level): a media description with valid parameters is turned into
// its SDP media section (pion structures) and back into an equal description:
// type, id, back-channel flag, profile, control and the format with its
// payload type, clock rate / channel parameters and optional fields.
func ZzC05MediaRT() {
	which := zzParam("FMT", 0)
	m := Media{Type: MediaTypeAudio, Control: "trackID=0"}
	if zzParam("MEDIAFIX", 0) == 0 {
		// media-level attributes symbolic (runs that focus on format parameters fix them)
		m = Media{Type: MediaTypeAudio, ID: zzAlnum("mid", 0, 2), IsBackChannel: zzBool("back"), Control: "trackID=" + zzAlnum("ctl", 1, 2)}
		if zzBool("secure") {
			m.Profile = headers.TransportProfileSAVP
		}
	}
	m.Formats = []format.Format{zzFormat(which)}
	if which2 := zzParam("FMT2", -1); which2 >= 0 {
		// a second format in the same media (static after dynamic payload types included)
		f2 := zzFormat(which2)
		zzAssume(f2.PayloadType() != m.Formats[0].PayloadType())
		m.Formats = append(m.Formats, f2)
	}
	md, err := m.Marshal()
	zzAssert(err == nil, "media marshals")
	var m2 Media
	err = m2.Unmarshal(md)
	zzAssert(err == nil, "marshalled media section parses")
	if err == nil {
		zzAssert(m2.Type == m.Type, "type preserved")
		zzAssert(m2.ID == m.ID, "id preserved")
		zzAssert(m2.IsBackChannel == m.IsBackChannel, "back-channel flag preserved")
		zzAssert(m2.Profile == m.Profile, "profile preserved")
		zzAssert(m2.Control == m.Control, "control preserved")
		zzAssert(len(m2.Formats) == len(m.Formats), "same number of formats")
		if len(m2.Formats) == len(m.Formats) {
			for i := range m.Formats {
				zzAssert(zzSameFormat(m.Formats[i], m2.Formats[i]), "format preserved (type, payload type, parameters)")
			}
		}
	}
	zzCover("done", true)
	zzAssertMustFail(m.Formats[0].PayloadType() == 96, "twin: the payload type is always 96")
}
