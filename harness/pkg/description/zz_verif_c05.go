package description

import (
	"github.com/bluenviron/gortsplib/v5/pkg/format"
	"github.com/bluenviron/gortsplib/v5/pkg/headers"
)

func zzAlnum(name string, min, max int) string {
	s := zzString(name, min, max)
	ok := true
	for i := 0; i < max; i++ {
		c := zzSAt(s, i)
		good := zzOr(zzAnd(c >= '0', c <= '9'), zzOr(zzAnd(c >= 'a', c <= 'z'), zzAnd(c >= 'A', c <= 'Z')))
		ok = zzAnd(ok, zzImplies(i < len(s), good))
	}
	zzAssume(ok)
	return s
}

// dynamic payload type 96..127
func zzPT() uint8 {
	pt := zzU8("pt")
	zzAssume(zzAnd(pt >= 96, pt <= 127))
	return pt
}

func zzFormat(which int) format.Format {
	switch which {
	case 0:
		return &format.Opus{PayloadTyp: zzPT(), ChannelCount: 1 + zzConcretize(zzIntIn("stereo", 0, 1))}
	case 1:
		depth := []int{8, 16, 24}[zzConcretize(zzIntIn("depth", 0, 2))]
		rate := []int{8000, 44100, 48000}[zzConcretize(zzIntIn("rate", 0, 2))]
		return &format.LPCM{PayloadTyp: zzPT(), BitDepth: depth, SampleRate: rate, ChannelCount: 1 + zzConcretize(zzIntIn("ch", 0, 1))}
	case 2:
		return &format.G711{PayloadTyp: zzPT(), MULaw: zzBool("mulaw"), SampleRate: 16000, ChannelCount: 1 + zzConcretize(zzIntIn("ch", 0, 1))}
	case 3:
		f := &format.VP8{PayloadTyp: zzPT()}
		if zzBool("hasMaxFR") {
			v := zzIntIn("maxfr", 0, 999)
			f.MaxFR = &v
		}
		return f
	case 4:
		return &format.G711{PayloadTyp: 0, MULaw: true, SampleRate: 8000, ChannelCount: 1}
	default:
		return &format.MPEGTS{}
	}
}

func zzSameFormat(a, b format.Format) bool {
	switch x := a.(type) {
	case *format.Opus:
		y, ok := b.(*format.Opus)
		return ok && zzAnd(x.PayloadTyp == y.PayloadTyp, x.ChannelCount == y.ChannelCount)
	case *format.LPCM:
		y, ok := b.(*format.LPCM)
		return ok && zzAnd(zzAnd(x.PayloadTyp == y.PayloadTyp, x.BitDepth == y.BitDepth), zzAnd(x.SampleRate == y.SampleRate, x.ChannelCount == y.ChannelCount))
	case *format.G711:
		y, ok := b.(*format.G711)
		return ok && zzAnd(zzAnd(x.PayloadTyp == y.PayloadTyp, x.MULaw == y.MULaw), zzAnd(x.SampleRate == y.SampleRate, x.ChannelCount == y.ChannelCount))
	case *format.VP8:
		y, ok := b.(*format.VP8)
		if !ok || (x.MaxFR == nil) != (y.MaxFR == nil) {
			return false
		}
		if x.MaxFR != nil && *x.MaxFR != *y.MaxFR {
			return false
		}
		return x.PayloadTyp == y.PayloadTyp
	case *format.MPEGTS:
		_, ok := b.(*format.MPEGTS)
		return ok
	}
	return false
}

// C05 (struct level): a media description with valid parameters is turned into
// its SDP media section (pion structures) and back into an equal description:
// type, id, back-channel flag, profile, control and the format with its
// payload type, clock rate / channel parameters and optional fields.
func ZzC05MediaRT() {
	which := zzParam("FMT", 0)
	m := Media{Type: MediaTypeAudio, ID: zzAlnum("mid", 0, 2), IsBackChannel: zzBool("back"), Control: "trackID=" + zzAlnum("ctl", 1, 2)}
	if zzBool("secure") {
		m.Profile = headers.TransportProfileSAVP
	}
	m.Formats = []format.Format{zzFormat(which)}
	md, err := m.Marshal()
	zzAssert(err == nil, "media marshals")
	var m2 Media
	err = m2.Unmarshal(md)
	zzAssert(err == nil, "marshalled media section parses")
	if err == nil {
		zzAssert(m2.Type == m.Type, "type preserved")
		zzAssert(m2.ID == m.ID, "id preserved")
		zzAssert(m2.IsBackChannel == m.IsBackChannel, "back-channel flag preserved")
		zzAssert(m2.Profile == m.Profile, "profile preserved")
		zzAssert(m2.Control == m.Control, "control preserved")
		zzAssert(len(m2.Formats) == 1, "one format")
		if len(m2.Formats) == 1 {
			zzAssert(zzSameFormat(m.Formats[0], m2.Formats[0]), "format preserved (type, payload type, parameters)")
		}
	}
	zzCover("done", true)
}
