package description

import "github.com/bluenviron/gortsplib/v5/pkg/base"

// C12 (sequential kernel): resolving a media control attribute chosen by a
// hostile server never yields (nil, nil) and never panics: the client then
// either has a URL to send SETUP to, or an error to report.
func ZzC12MediaURL() {
	cb, err := base.ParseURL("rtsp://host:8554/stream/")
	zzAssert(err == nil, "content base parses")
	hole := zzString("hole", 1, zzParam("HL", 3))
	ok := true
	for i := 0; i < 3; i++ {
		ok = zzAnd(ok, zzImplies(i < len(hole), zzSAt(hole, i) != '@'))
	}
	zzAssume(ok)
	m := Media{Control: "tr" + hole + "ack"}
	ur, err2 := m.URL(cb)
	zzAssert(!(ur == nil && err2 == nil), "media URL resolution returns a URL or an error, never neither")
	zzCover("resolved", ur != nil)
	zzCover("rejected", err2 != nil)
}

// C12 (sequential kernel, arbitrary control attribute): the same for a control
// attribute that is an arbitrary string of 0..CL bytes (no '@'), against a
// content base with or without a trailing slash or a query.
func ZzC12MediaURLAny() {
	bases := []string{"rtsp://host:8554/stream/", "rtsp://host:8554/stream", "rtsp://host/s?k=v"}
	cb, err := base.ParseURL(bases[zzConcretize(zzIntIn("base", 0, 2))])
	zzAssert(err == nil, "content base parses")
	n := zzParam("CL", 2)
	ctl := zzString("control", 0, n)
	ok := true
	for i := 0; i < n; i++ {
		ok = zzAnd(ok, zzImplies(i < len(ctl), zzSAt(ctl, i) != '@'))
	}
	zzAssume(ok)
	m := Media{Control: ctl}
	ur, err2 := m.URL(cb)
	zzAssert(!(ur == nil && err2 == nil), "media URL resolution returns a URL or an error, never neither")
	zzCover("resolved", ur != nil)
	zzCover("rejected", err2 != nil)
	zzAssertMustFail(err2 == nil, "twin: every control attribute resolves")
}

// C20 (client-side control resolution against its documented rule): for a
// relative control attribute made of symbolic URL-safe bytes plus '/' and '?'
// anywhere (camera-style "stream=0/trackID=1", query-style "?ctl", leading
// '/'), and a base with or without trailing slash / query, the resolved URL is
// base + control, with a '/' inserted exactly when the control does not start
// with '?' or '/' and the base does not end in '/'.
func ZzC20MediaURLJoin() {
	bases := []string{"rtsp://host:8554/stream/", "rtsp://host:8554/stream", "rtsp://host/s?k=v", "rtsp://host/s?k=v/"}
	bs := bases[zzConcretize(zzIntIn("base", 0, 3))]
	cb, err := base.ParseURL(bs)
	zzAssert(err == nil, "content base parses")
	n := zzParam("CL", 3)
	ctl := zzString("control", 1, n)
	ok := true
	for i := 0; i < n; i++ {
		c := zzSAt(ctl, i)
		alnum := zzOr(zzAnd(c >= '0', c <= '9'), zzOr(zzAnd(c >= 'a', c <= 'z'), zzAnd(c >= 'A', c <= 'Z')))
		punct := zzOr(zzOr(c == '=', c == '&'), zzOr(c == '/', c == '?'))
		ok = zzAnd(ok, zzImplies(i < len(ctl), zzOr(alnum, punct)))
	}
	zzAssume(ok)
	m := Media{Control: ctl}
	ur, err2 := m.URL(cb)
	zzAssert(err2 == nil && ur != nil, "a relative control made of URL-safe text resolves")
	if err2 != nil || ur == nil {
		return
	}
	want := bs
	if ctl[0] != '?' && ctl[0] != '/' && bs[len(bs)-1] != '/' {
		want += "/"
	}
	want += ctl
	ref, err3 := base.ParseURL(want)
	zzAssert(err3 == nil, "reference URL parses")
	if err3 == nil {
		zzAssert(ur.Path == ref.Path && ur.RawQuery == ref.RawQuery && ur.Host == ref.Host && ur.Scheme == ref.Scheme, "resolved media URL = base joined with the control attribute by the documented rule")
	}
	zzCover("separator inserted", ctl[0] != '?' && ctl[0] != '/' && bs[len(bs)-1] != '/')
	zzCover("no separator", !(ctl[0] != '?' && ctl[0] != '/' && bs[len(bs)-1] != '/'))
}
