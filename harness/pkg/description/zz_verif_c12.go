package description

import "github.com/bluenviron/gortsplib/v5/pkg/base"

// C12 (sequential kernel): resolving a media control attribute chosen by a
// hostile server never yields (nil, nil) and never panics: the client then
// either has a URL to send SETUP to, or an error to report.
func ZzC12MediaURL() {
	cb, err := base.ParseURL("rtsp://host:8554/stream/")
	zzAssert(err == nil, "content base parses")
	hole := zzString("hole", 1, zzParam("HL", 3))
	ok := true
	for i := 0; i < 3; i++ {
		ok = zzAnd(ok, zzImplies(i < len(hole), zzSAt(hole, i) != '@'))
	}
	zzAssume(ok)
	m := Media{Control: "tr" + hole + "ack"}
	ur, err2 := m.URL(cb)
	zzAssert(!(ur == nil && err2 == nil), "media URL resolution returns a URL or an error, never neither")
	zzCover("resolved", ur != nil)
	zzCover("rejected", err2 != nil)
}

// C12 (sequential kernel, arbitrary control attribute): the same for a control
// attribute that is an arbitrary string of 0..CL bytes (no '@'), against a
// content base with or without a trailing slash or a query.
func ZzC12MediaURLAny() {
	bases := []string{"rtsp://host:8554/stream/", "rtsp://host:8554/stream", "rtsp://host/s?k=v"}
	cb, err := base.ParseURL(bases[zzConcretize(zzIntIn("base", 0, 2))])
	zzAssert(err == nil, "content base parses")
	n := zzParam("CL", 2)
	ctl := zzString("control", 0, n)
	ok := true
	for i := 0; i < n; i++ {
		ok = zzAnd(ok, zzImplies(i < len(ctl), zzSAt(ctl, i) != '@'))
	}
	zzAssume(ok)
	m := Media{Control: ctl}
	ur, err2 := m.URL(cb)
	zzAssert(!(ur == nil && err2 == nil), "media URL resolution returns a URL or an error, never neither")
	zzCover("resolved", ur != nil)
	zzCover("rejected", err2 != nil)
}
