package description

import "github.com/bluenviron/gortsplib/v5/pkg/base"

// C12 (sequential kernel): resolving a media control attribute chosen by a
// hostile server never yields (nil, nil) and never panics: the client then
// either has a URL to send SETUP to, or an error to report.
func ZzC12MediaURL() {
	cb, err := base.ParseURL("rtsp://host:8554/stream/")
	zzAssert(err == nil, "content base parses")
	hole := zzString("hole", 1, zzParam("HL", 3))
	ok := true
	for i := 0; i < 3; i++ {
		ok = zzAnd(ok, zzImplies(i < len(hole), zzSAt(hole, i) != '@'))
	}
	zzAssume(ok)
	m := Media{Control: "tr" + hole + "ack"}
	ur, err2 := m.URL(cb)
	zzAssert(!(ur == nil && err2 == nil), "media URL resolution returns a URL or an error, never neither")
	zzCover("resolved", ur != nil)
	zzCover("rejected", err2 != nil)
}
