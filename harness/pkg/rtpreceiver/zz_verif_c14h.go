package rtpreceiver

import (
	"time"

	"github.com/pion/rtp"
)

// C14 (history through the public API, no field names - survives a refactoring
// of the receiver's internals): K packets with arbitrary sequence numbers within
// a quarter of the sequence space around the first one (gaps, reordering,
// duplicates), unreliable transport with buffer B >= K (so that no restart can
// be triggered) or reliable transport: delivered sequence numbers are strictly
// increasing, none is delivered twice, every delivered packet was received, and
// the losses reported add up to the sequence numbers skipped between consecutive
// deliveries; Stats agree.
func ZzC14Hist() {
	K := zzParam("K", 4)
	B := zzParam("B", 4)
	unreliable := zzParam("RELIABLE", 0) == 0
	rr := &Receiver{ClockRate: 90000, UnrealiableTransport: unreliable, BufferSize: B, Period: time.Second}
	zzAssert(rr.Initialize() == nil, "receiver initialises")
	seqs := make([]uint16, K)
	var delivered []uint16
	lost := uint64(0)
	now := time.Unix(1700000000, 0)
	for k := 0; k < K; k++ {
		seqs[k] = zzU16("seq")
		d16 := int16(seqs[k] - seqs[0])
		zzAssume(zzAnd(d16 > -16384, d16 < 16384))
		if !unreliable && k > 0 {
			// a reliable transport delivers in order: forward steps only
			f := int16(seqs[k] - seqs[k-1])
			zzAssume(f > 0)
		}
		out, l := rr.ProcessPacket2(&rtp.Packet{Header: rtp.Header{SequenceNumber: seqs[k], Timestamp: uint32(k)}}, now, true)
		lost += l
		for _, p := range out {
			delivered = append(delivered, p.SequenceNumber)
		}
	}
	zzAssert(len(delivered) >= 1 && delivered[0] == seqs[0], "the first packet is delivered first")
	skipped := uint64(0)
	for i := 1; i < len(delivered); i++ {
		step := int16(delivered[i] - delivered[i-1])
		zzAssert(step > 0, "delivered sequence numbers strictly increase modulo 2^16 (no duplicate, no reordering)")
		skipped += uint64(uint16(step) - 1)
	}
	for _, s := range delivered {
		ok := false
		for k := 0; k < K; k++ {
			ok = zzOr(ok, s == seqs[k])
		}
		zzAssert(ok, "every delivered packet was received")
	}
	zzAssert(lost == skipped, "reported losses = sequence numbers skipped between consecutive deliveries")
	st := rr.Stats()
	zzAssert(st != nil && st.Lost == lost, "Stats().Lost agrees with the reported losses")
	if unreliable {
		zzCover("something withheld or dropped", len(delivered) < K)
	}
	zzCover("all delivered", len(delivered) == K)
}
