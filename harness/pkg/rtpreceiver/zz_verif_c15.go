package rtpreceiver

import (
	"github.com/pion/rtcp"

	"time"

	"github.com/bluenviron/gortsplib/v5/pkg/ntp"
)

// C15: once a sender report has been processed, the absolute time of a packet
// is the report's NTP instant plus the signed 32-bit RTP difference converted
// at the clock rate (truncated toward zero, i.e. within one clock tick), with
// no 64-bit overflow for any difference and any rate in use.
func ZzC15PacketNTP() {
	rate := zzParam("RATE", 90000)
	rr := &Receiver{ClockRate: rate, Period: time.Second}
	rr.firstSenderReportReceived = true
	sec := zzU64("ntpsec")
	// the fraction is pinned (half a second): NTP decoding itself is covered by
	// ZzC15NTPRoundTrip, here only the RTP offset arithmetic is at stake
	frac := uint64(0x80000000)
	zzAssume(zzAnd(sec >= 2208988800+86400*365, sec < 1<<32)) // 1971 .. 2036 (NTP era 0)
	rr.lastSenderReportTimeNTP = sec<<32 | frac
	rtp0 := zzU32("rtp0")
	rr.lastSenderReportTimeRTP = rtp0
	d32 := zzI32("delta") // every signed 32-bit difference, from every starting RTP time
	ts := rtp0 + uint32(d32)
	out, ok := rr.packetNTPUnsafe(ts)
	zzAssert(ok, "absolute time available after a sender report")
	base := ntp.Decode(rr.lastSenderReportTimeNTP)
	delta := int64(d32)
	got := int64(out.Sub(base))
	if delta >= 0 {
		zzAssert(zzIsFloorDiv(got, uint64(delta), 1000000000, uint64(rate)), "offset = floor(delta*1e9/rate) for delta >= 0 (within one tick)")
	} else {
		zzAssert(zzIsFloorDiv(-got, uint64(-delta), 1000000000, uint64(rate)), "offset = -floor(-delta*1e9/rate) for delta < 0 (within one tick)")
	}
	zzCover("backward (B-frame)", delta < 0)
	zzCover("forward", delta > 0)
	zzAssertMustFail(got >= 0, "twin: offset never negative")
}

// C15 (sign of the offset, decided separately from the division identity): a
// packet whose RTP time precedes the last sender report's (signed 32-bit
// difference) is never dated after the report, and one that follows it is never
// dated before.
func ZzC15PacketNTPSign() {
	rate := zzParam("RATE", 90000)
	rr := &Receiver{ClockRate: rate, Period: time.Second}
	rr.firstSenderReportReceived = true
	sec := zzU64("ntpsec")
	zzAssume(zzAnd(sec >= 2208988800+86400*365, sec < 1<<32))
	rr.lastSenderReportTimeNTP = sec<<32 | uint64(0x80000000)
	rtp0 := zzU32("rtp0")
	rr.lastSenderReportTimeRTP = rtp0
	d32 := zzI32("delta")
	out, ok := rr.packetNTPUnsafe(rtp0 + uint32(d32))
	zzAssert(ok, "absolute time available after a sender report")
	got := int64(out.Sub(ntp.Decode(rr.lastSenderReportTimeNTP)))
	if d32 < 0 {
		zzAssert(got <= 0, "a packet that precedes the sender report is not dated after it")
	} else {
		zzAssert(got >= 0, "a packet that follows the sender report is not dated before it")
	}
	zzCover("backward", d32 < 0)
	zzCover("forward", d32 > 0)
}

// C15 (reports and packets interleaved): after ANY sequence of K sender
// reports (arbitrary NTP and RTP values - the writer's clock may step in either
// direction), on reliable and unreliable transports, the mapping is anchored to
// the LAST report processed: a packet carrying exactly that report's RTP time
// is dated with exactly that report's NTP time, and before any report no
// absolute time is given.
func ZzC15ReportSequence() {
	K := zzParam("K", 2)
	rr := &Receiver{ClockRate: zzParam("RATE", 90000), Period: time.Second, UnrealiableTransport: zzBool("unreliable")}
	_, ok0 := rr.PacketNTP(zzU32("early"))
	zzAssert(!ok0, "no absolute time before the first sender report")
	var lastNTP uint64
	var lastRTP uint32
	for k := 0; k < K; k++ {
		sec := zzU64("ntpsec")
		zzAssume(zzAnd(sec >= 2208988800+86400*365, sec < 1<<32))
		lastNTP = sec<<32 | uint64(0x80000000)
		lastRTP = zzU32("rtp")
		rr.ProcessSenderReport(&rtcp.SenderReport{NTPTime: lastNTP, RTPTime: lastRTP}, time.Time{})
	}
	got, ok := rr.PacketNTP(lastRTP)
	zzAssert(ok, "absolute time available after a sender report")
	zzAssert(got.Equal(ntp.Decode(lastNTP)), "a packet with the RTP time of the last report is dated with that report's NTP time")
	zzCover("done", true)
}
