package rtpreceiver

import "github.com/pion/rtcp"

func zzAsRR(p rtcp.Packet) *rtcp.ReceiverReport { return p.(*rtcp.ReceiverReport) }
