package rtpreceiver

import (
	"time"

	"github.com/pion/rtp"
)

// C14: one inductive step of the reorder buffer from an ARBITRARY valid
// pre-state (every wrap position of the 16-bit sequence space at once), checked
// against a reference receiver written here.

type zzRef struct {
	B        int
	last     uint16
	absPos   int
	occ      []bool   // occ[k]: a packet with sequence last+1+k is buffered (k=1..B-1), occ[0] always false
	pk       []*rtp.Packet
	negCount int
	recv, lost, recvSR, lostSR uint64
	cycles   uint16
}

func zzRecvState() (*Receiver, *zzRef) {
	B := zzParam("B", 4)
	rr := &Receiver{ClockRate: 90000, UnrealiableTransport: true, BufferSize: B, Period: time.Second}
	rr.buffer = make([]*rtp.Packet, B)
	rr.firstRTPPacketReceived = true
	m := &zzRef{B: B, occ: make([]bool, B), pk: make([]*rtp.Packet, B)}
	m.last = zzU16("last")
	m.absPos = zzConcretize(zzIntIn("absPos", 0, B-1))
	m.negCount = zzConcretize(zzIntIn("negCount", 0, B))
	for k := 1; k < B; k++ {
		if zzBool("occupied") {
			p := &rtp.Packet{Header: rtp.Header{SequenceNumber: m.last + 1 + uint16(k)}}
			m.occ[k] = true
			m.pk[k] = p
			rr.buffer[(m.absPos+k)&(B-1)] = p
		}
	}
	m.recv, m.lost, m.recvSR, m.lostSR = zzU64("recv"), zzU64("lost"), zzU64("recvSR"), zzU64("lostSR")
	zzAssume(m.recv < 1<<62)
	zzAssume(m.lost < 1<<62)
	zzAssume(m.recvSR < 1<<62)
	zzAssume(m.lostSR < 1<<62)
	m.cycles = zzU16("cycles")
	rr.lastSequenceNumber = m.last
	rr.absPos = uint16(m.absPos)
	rr.negativeCount = m.negCount
	rr.received, rr.lost, rr.receivedAndLostSinceReport, rr.lostSinceReport = m.recv, m.lost, m.recvSR, m.lostSR
	rr.sequenceNumberCycles = m.cycles
	return rr, m
}

// representation invariant after a step, relative to the model's view
func zzCheckInv(rr *Receiver, m *zzRef, what string) {
	B := m.B
	zzAssert(int(rr.absPos) < B, what+": absPos < B")
	zzAssert(rr.negativeCount >= 0, what+": negativeCount >= 0")
	zzAssert(rr.negativeCount <= B, what+": negativeCount <= B")
	zzAssert(rr.buffer[rr.absPos] == nil, what+": the awaited slot is empty")
	for k := 1; k < B; k++ {
		p := rr.buffer[(int(rr.absPos)+k)&(B-1)]
		if p != nil {
			zzAssert(p.SequenceNumber == rr.lastSequenceNumber+1+uint16(k), what+": buffered packet sits at its sequence distance")
		}
	}
}

func ZzC14Step() {
	rr, m := zzRecvState()
	B := m.B
	seq := zzU16("seq")
	pkt := &rtp.Packet{Header: rtp.Header{SequenceNumber: seq, Timestamp: zzU32("ts")}}
	pkts, lost := rr.ProcessPacket2(pkt, time.Time{}, false)

	relPos := int16(seq - m.last - 1)
	nbuf := 0
	for k := 1; k < B; k++ {
		if m.occ[k] {
			nbuf++
		}
	}
	restart := false
	if relPos < 0 {
		if m.negCount+1 > B {
			// detected sender restart: the packet is followed, buffer dropped
			restart = true
			zzAssert(len(pkts) == 1, "restart: the packet is delivered")
			if len(pkts) == 1 {
				zzAssert(pkts[0] == pkt, "restart: the packet itself")
			}
			zzAssert(lost == 0, "restart: nothing counted as lost")
			zzAssert(rr.negativeCount == 0, "restart: counter cleared")
			for i := 0; i < B; i++ {
				zzAssert(rr.buffer[i] == nil, "restart: buffer emptied")
			}
			zzCover("restart", true)
		} else {
			// late or duplicate packet: dropped, never delivered
			zzAssert(len(pkts) == 0, "old/duplicate packet is not delivered")
			zzAssert(lost == 0, "old/duplicate packet: no loss counted")
			zzAssert(rr.negativeCount == m.negCount+1, "old/duplicate packet counted towards restart detection")
			zzAssert(rr.lastSequenceNumber == m.last, "old/duplicate packet: last delivered unchanged")
			zzCover("old packet dropped", true)
		}
	} else {
		zzAssert(rr.negativeCount == 0, "in-window packet clears restart detection")
		if int(relPos) >= B {
			// gap larger than the buffer: flush in order, then the packet
			zzAssert(len(pkts) == nbuf+1, "flush: all buffered packets then the new one")
			zzAssert(lost == uint64(int(relPos)-nbuf), "flush: lost = skipped sequence numbers")
			zzCover("flush", true)
		} else if relPos != 0 {
			zzAssert(len(pkts) == 0, "displaced packet inside the window is held, not delivered yet")
			zzAssert(lost == 0, "displaced packet: no loss counted")
			p := rr.buffer[(m.absPos+int(relPos))&(B-1)]
			zzAssert(p != nil, "displaced packet inside the window is buffered, not dropped")
			if m.occ[relPos] {
				zzAssert(p == m.pk[relPos], "duplicate of a buffered packet does not replace it")
			} else {
				zzAssert(p == pkt, "displaced packet stored at its position")
			}
			zzCover("buffered", true)
		} else {
			run := 0
			for k := 1; k < B; k++ {
				if !m.occ[k] {
					break
				}
				run++
			}
			zzAssert(len(pkts) == 1+run, "in-order packet delivered with the consecutive buffered run")
			zzAssert(lost == 0, "in-order packet: no loss")
			zzCover("in order", true)
			if B > 1 {
				zzCover("in order with buffered run", run > 0)
			}
		}
	}
	// delivered packets: strictly increasing (mod 2^16) from the last delivered,
	// no duplicates, and lost = sum of skipped numbers
	prev := m.last
	var skipped uint64
	cyc := m.cycles
	for i, p := range pkts {
		// forward distance 1..32768 (the receiver treats exactly half the
		// sequence space ahead as "ahead")
		d := p.SequenceNumber - prev
		if !restart {
			zzAssert(d >= 1, "delivered sequence numbers strictly increase modulo 2^16 (never a duplicate)")
			zzAssert(d <= 32768, "delivered sequence numbers strictly increase modulo 2^16 (never backwards)")
			skipped += uint64(d - 1)
		}
		if p.SequenceNumber < prev && !restart {
			cyc++ // forward step that wraps
		}
		prev = p.SequenceNumber
		_ = i
	}
	if !restart {
		zzAssert(lost == skipped, "lost = sequence numbers skipped between consecutively delivered packets")
		zzAssert(rr.sequenceNumberCycles == cyc, "cycle counter advances exactly when the delivered sequence wraps")
	}
	if len(pkts) > 0 {
		zzAssert(rr.lastSequenceNumber == pkts[len(pkts)-1].SequenceNumber, "last delivered = last returned")
	}
	zzAssert(rr.received == m.recv+uint64(len(pkts)), "received counter")
	zzAssert(rr.lost == m.lost+lost, "lost counter")
	zzAssert(rr.lostSinceReport == m.lostSR+lost, "lost-since-report counter")
	zzAssert(rr.receivedAndLostSinceReport == m.recvSR+uint64(len(pkts))+lost, "received+lost since report")
	zzCheckInv(rr, m, "post")
	zzAssertMustFail(len(pkts) <= 1, "twin: never more than one packet delivered")
}

// reliable transport: every packet delivered, lost = gap modulo 2^16
func ZzC14Reliable() {
	rr := &Receiver{ClockRate: 90000, BufferSize: 64, Period: time.Second}
	rr.firstRTPPacketReceived = true
	last := zzU16("last")
	rr.lastSequenceNumber = last
	recv, lostc := zzU64("recv"), zzU64("lost")
	zzAssume(recv < 1<<62)
	zzAssume(lostc < 1<<62)
	rr.received, rr.lost = recv, lostc
	cycles := zzU16("cycles")
	rr.sequenceNumberCycles = cycles
	seq := zzU16("seq")
	pkt := &rtp.Packet{Header: rtp.Header{SequenceNumber: seq}}
	pkts, lost := rr.ProcessPacket2(pkt, time.Time{}, false)
	zzAssert(len(pkts) == 1, "reliable: delivered")
	zzAssert(lost == uint64(seq-last-1), "reliable: lost = gap modulo 2^16")
	zzAssert(rr.lost == lostc+lost, "reliable: lost counter")
	zzAssert(rr.received == recv+1, "reliable: received counter")
	zzAssert(rr.lastSequenceNumber == seq, "reliable: last")
	if int16(seq-last) > 0 {
		want := cycles
		if seq < last {
			want++
		}
		zzAssert(rr.sequenceNumberCycles == want, "reliable: cycle counter advances exactly on a forward wrap")
	}
	zzCover("wrap", seq < last)
}

// report assembly: extended highest sequence number, 24-bit clamp, fraction
func ZzC14Report() {
	rr := &Receiver{ClockRate: 90000, BufferSize: 64, Period: time.Second, LocalSSRC: zzU32("local")}
	rr.TimeNow = func() time.Time { return time.Time{} }
	rr.firstRTPPacketReceived = true
	rr.lastSequenceNumber = zzU16("last")
	rr.sequenceNumberCycles = zzU16("cycles")
	rr.remoteSSRC = zzU32("remote")
	rr.lost = zzU64("lost")
	rr.lostSinceReport = zzU64("lostSR")
	rr.receivedAndLostSinceReport = zzU64("rlSR")
	zzAssume(rr.lostSinceReport <= rr.receivedAndLostSinceReport)
	zzAssume(rr.receivedAndLostSinceReport < 1<<40)
	lost, lostSR, rlSR := rr.lost, rr.lostSinceReport, rr.receivedAndLostSinceReport
	rep := rr.report()
	zzAssert(rep != nil, "report produced")
	r := rep.(interface{ DestinationSSRC() []uint32 })
	_ = r
	zzAssert(rr.lostSinceReport == 0, "since-report counters cleared")
	zzAssert(rr.receivedAndLostSinceReport == 0, "since-report counters cleared (2)")
	rrp := zzAsRR(rep)
	zzAssert(len(rrp.Reports) == 1, "one reception report")
	rp := rrp.Reports[0]
	zzAssert(rrp.SSRC == rr.LocalSSRC, "local ssrc")
	zzAssert(rp.SSRC == rr.remoteSSRC, "remote ssrc")
	zzAssert(rp.LastSequenceNumber == uint32(rr.sequenceNumberCycles)<<16|uint32(rr.lastSequenceNumber), "extended highest sequence number")
	if lost <= 0xFFFFFF {
		zzAssert(uint64(rp.TotalLost) == lost, "cumulative lost")
	} else {
		zzAssert(rp.TotalLost == 0xFFFFFF, "cumulative lost clamped to 24 bits")
	}
	if rlSR != 0 {
		if lostSR <= 0xFFFFFF {
			// floor(256*lost/(recv+lost)), clamped to 8 bits by conversion
			zzAssert(rp.FractionLost == uint8(lostSR*256/rlSR), "fraction lost")
		}
		zzCover("fraction computed", true)
	} else {
		zzAssert(rp.FractionLost == 0, "fraction lost zero without packets")
	}
}
