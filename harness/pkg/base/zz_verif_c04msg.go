package base

import (
	"bufio"
	"io"
)

// reader that hands out the stream in two pieces: the first `split` bytes, then
// everything else (each bounded by the caller's buffer), or byte by byte
type zzSplitReader struct {
	data  []byte
	pos   int
	split int
}

func (r *zzSplitReader) Read(p []byte) (int, error) {
	if r.pos >= len(r.data) {
		return 0, io.EOF
	}
	end := len(r.data)
	if r.split == 0 {
		end = r.pos + 1 // byte-wise
	} else if r.pos < r.split {
		end = r.split
	}
	n := copy(p, r.data[r.pos:end])
	r.pos += n
	return n, nil
}

var zzMethods = []Method{Announce, Describe, GetParameter, Options, Pause, Play, Record, Setup, SetParameter, Teardown}

func zzHeaderText(name string, max int) string {
	s := zzString(name, 1, max)
	ok := true
	for i := 0; i < max; i++ {
		c := zzSAt(s, i)
		// printable text; spaces and tabs allowed anywhere but at the start (leading
		// spaces are skipped by the parser by design); no CR/LF
		good := zzAnd(c > 0x20, c < 0x7f)
		if i > 0 {
			good = zzOr(good, zzOr(c == ' ', c == '\t'))
		}
		ok = zzAnd(ok, zzImplies(i < len(s), good))
	}
	zzAssume(ok)
	return s
}

// C04 (text messages): a request (any defined method, URL with path and query,
// CSeq, a header with symbolic value, optional body with symbolic bytes)
// followed back to back by an interleaved frame is read back as the same
// request and the same frame, wherever the byte stream is cut into two reads
// (every cut position, SPLIT mode) or delivered byte by byte (SPLIT=0).
func ZzC04Request() {
	mi := zzConcretize(zzIntIn("method", zzParam("MLO", 0), zzParam("MHI", len(zzMethods)-1)))
	u, err := ParseURL("rtsp://host:8554/path/sub?key=val")
	zzAssert(err == nil, "url parses")
	hv := zzHeaderText("hval", zzParam("HL", 2))
	body := zzBytes("body", 0, zzParam("BL", 2))
	req := Request{Method: zzMethods[mi], URL: u, Header: Header{"CSeq": HeaderValue{"7"}, "X-Note": HeaderValue{hv}}, Body: body}
	buf, err := req.Marshal()
	zzAssert(err == nil, "request marshals")
	fr := InterleavedFrame{Channel: int(zzU8("channel")), Payload: zzBytes("payload", 0, 2)}
	fb, err := fr.Marshal()
	zzAssert(err == nil, "frame marshals")
	stream := append(append([]byte(nil), buf...), fb...)

	split := 0
	if zzParam("SPLIT", 1) == 1 {
		split = zzInt("split")
		zzAssume(split >= 1)
		zzAssume(split <= len(stream)-1)
		split = zzConcretize(split)
	}
	br := bufio.NewReaderSize(&zzSplitReader{data: stream, split: split}, zzParam("BUFSZ", 4096))
	var got Request
	err = got.Unmarshal(br)
	zzAssert(err == nil, "request is read back")
	if err == nil {
		zzAssert(got.Method == req.Method, "method preserved")
		zzAssert(got.URL != nil && got.URL.String() == u.String(), "url preserved")
		zzAssert(len(got.Header["Cseq"]) == 0 && len(got.Header["CSeq"]) == 1 && got.Header["CSeq"][0] == "7", "CSeq preserved")
		zzAssert(len(got.Header["X-Note"]) == 1 && got.Header["X-Note"][0] == hv, "header value preserved")
		zzAssert(zzBytesEq(got.Body, body), "body preserved")
	}
	var gf InterleavedFrame
	err = gf.Unmarshal(br)
	zzAssert(err == nil, "frame after the request is read back")
	if err == nil {
		zzAssert(gf.Channel == fr.Channel, "channel preserved")
		zzAssert(zzBytesEq(gf.Payload, fr.Payload), "payload preserved")
	}
	zzCover("with body", len(body) > 0)
	zzCover("without body", len(body) == 0)
}

// C04 (text messages): same for a response (status code from {100, 200, 401, 599},
// reason phrase present or empty) followed by a request.
func ZzC04Response() {
	code := []int{100, 200, 401, 599}[zzConcretize(zzIntIn("status", 0, 3))]
	res := Response{StatusCode: StatusCode(code), Header: Header{"CSeq": HeaderValue{"7"}, "Session": HeaderValue{zzHeaderText("hval", zzParam("HL", 2))}}, Body: zzBytes("body", 0, zzParam("BL", 2))}
	if zzBool("reason") {
		res.StatusMessage = "Some Reason"
	}
	buf, err := res.Marshal()
	zzAssert(err == nil, "response marshals")
	req := Request{Method: Options, Header: Header{"CSeq": HeaderValue{"8"}}}
	if zzParam("LONGFOLLOW", 0) == 1 {
		// the follower is longer than the response, so that a reader which refills its
		// buffer overwrites every place the response's fields could still point into
		req.Header["A"] = HeaderValue{"aaaaaaaaaaaaaaaaaaaaaaaaaaaaaaaaaaaaaaaa"}
		req.Header["B"] = HeaderValue{"bbbbbbbbbbbbbbbbbbbbbbbbbbbbbbbbbbbbbbbb"}
		req.Header["C"] = HeaderValue{"cccccccccccccccccccccccccccccccccccccccc"}
	}
	rb, err := req.Marshal()
	zzAssert(err == nil, "request marshals")
	stream := append(append([]byte(nil), buf...), rb...)
	split := 0
	if zzParam("LONGFOLLOW", 0) == 1 {
		// one delivery per element
		split = len(buf)
	} else if zzParam("SPLIT", 1) == 1 {
		split = zzInt("split")
		zzAssume(split >= 1)
		zzAssume(split <= len(stream)-1)
		split = zzConcretize(split)
	}
	br := bufio.NewReaderSize(&zzSplitReader{data: stream, split: split}, zzParam("BUFSZ", 4096))
	var got Response
	err = got.Unmarshal(br)
	zzAssert(err == nil, "response is read back")
	if err == nil {
		zzAssert(got.StatusCode == res.StatusCode, "status code preserved")
		if res.StatusMessage != "" {
			zzAssert(got.StatusMessage == res.StatusMessage, "reason phrase preserved")
		}
		zzAssert(len(got.Header["Session"]) == 1 && got.Header["Session"][0] == res.Header["Session"][0], "header value preserved")
		zzAssert(zzBytesEq(got.Body, res.Body), "body preserved")
	}
	var g2 Request
	err = g2.Unmarshal(br)
	zzAssert(err == nil, "request after the response is read back")
	if err == nil {
		zzAssert(g2.Method == Options && g2.URL == nil, "following request preserved")
		zzAssert(zzBytesEq(got.Body, res.Body), "the body of an element already returned is not disturbed by reading the next one")
		zzAssert(len(got.Header["Session"]) == 1 && got.Header["Session"][0] == res.Header["Session"][0], "header values of an element already returned are not disturbed by reading the next one")
	}
	zzCover("done", true)
}

// C04 (limits): a header block with more entries than the documented limit
// (255 lines - distinct keys or one key repeated) is refused, one within it is
// accepted; key and value length limits likewise.
func ZzC04HeaderLimit() {
	n := zzConcretize(zzIntIn("lines", 254, 257))
	same := zzBool("samekey")
	k := zzU8("keyletter")
	zzAssume(zzAnd(k >= 'a', k <= 'z'))
	var stream []byte
	for i := 0; i < n; i++ {
		if same {
			stream = append(stream, 'K', k)
		} else {
			stream = append(stream, 'K', k, byte('0'+i/100), byte('0'+(i/10)%10), byte('0'+i%10))
		}
		stream = append(stream, ':', ' ', 'v', '\r', '\n')
	}
	stream = append(stream, '\r', '\n')
	br := bufio.NewReaderSize(&zzSplitReader{data: stream, split: len(stream)}, 4096)
	var h Header
	err := h.unmarshal(br)
	if n <= headerMaxEntryCount {
		zzAssert(err == nil, "a header block within the limit is accepted")
		total := 0
		for _, v := range h {
			total += len(v)
		}
		zzAssert(total == n, "every line is kept")
	} else {
		zzAssert(err != nil, "a header block beyond the documented entry limit is refused")
	}
	zzCover("refused", n > headerMaxEntryCount)
	zzCover("accepted", n <= headerMaxEntryCount)
}

// C04 (body limit): a message whose Content-Length is within the documented
// maximum and whose body is present is read back; one whose Content-Length is
// beyond the maximum (just above it, or so large that it wraps when converted),
// negative or not a number is refused with an error - never a panic, and never
// an allocation driven by the declared length.
func ZzC04BodyLimit() {
	cls := []string{"0", "3", "131072", "131073", "4294967296", "9223372036854775807", "9223372036854775808",
		"18446744073709551615", "18446744073709551616", "-1", "+3", "3x", ""}
	cl := cls[zzConcretize(zzIntIn("contentLength", 0, len(cls)-1))]
	// last digit symbolic for the numeric ones
	body := zzBytes("body", 0, 3)
	stream := []byte("OPTIONS rtsp://h/p RTSP/1.0\r\nCSeq: 1\r\nContent-Length: " + cl + "\r\n\r\n")
	stream = append(stream, body...)
	br := bufio.NewReaderSize(&zzSplitReader{data: stream, split: len(stream)}, 4096)
	var req Request
	err := req.Unmarshal(br)
	switch cl {
	case "0":
		zzAssert(err == nil && len(req.Body) == 0, "empty body accepted")
	case "3":
		if len(body) == 3 {
			zzAssert(err == nil && zzBytesEq(req.Body, body), "body within the limit read back")
		} else {
			zzAssert(err != nil, "truncated body is an error")
		}
	case "131072":
		zzAssert(err != nil, "declared maximum-size body that is not there is an error (no panic)")
	default:
		zzAssert(err != nil, "Content-Length beyond the limit / malformed is refused")
	}
	zzCover("accepted", err == nil)
	zzCover("refused", err != nil)
}
