package base

import (
	"bufio"
	"io"
)

// reader that hands out the stream in chunks of arbitrary (symbolic) size >= 1
type zzChunkReader struct {
	data []byte
	pos  int
}

func (r *zzChunkReader) Read(p []byte) (int, error) {
	if r.pos >= len(r.data) {
		return 0, io.EOF
	}
	max := len(r.data) - r.pos
	if len(p) < max {
		max = len(p)
	}
	k := 1
	if zzParam("CHUNK1", 0) == 0 {
		// every chunk size 1..max
		k = zzInt("chunk")
		zzAssume(k >= 1)
		zzAssume(k <= max)
		k = zzConcretize(k)
	}
	n := copy(p, r.data[r.pos:r.pos+k])
	r.pos += n
	return n, nil
}

// C04 (interleaved frames): two frames serialised back to back are read back
// with the same channel and payload for every chunking of the byte stream.
func ZzC04Frames() {
	P := zzParam("P", 4)
	var stream []byte
	chs := make([]int, 2)
	pls := make([][]byte, 2)
	for i := 0; i < 2; i++ {
		chs[i] = int(zzU8("channel"))
		pls[i] = zzBytes("payload", 0, P)
		f := InterleavedFrame{Channel: chs[i], Payload: pls[i]}
		buf := make([]byte, f.MarshalSize())
		n, err := f.MarshalTo(buf)
		zzAssert(err == nil, "frame marshals")
		zzAssert(n == 4+len(pls[i]), "marshalled size = 4 + payload")
		stream = append(stream, buf[:n]...)
	}
	br := bufio.NewReaderSize(&zzChunkReader{data: stream}, 16)
	for i := 0; i < 2; i++ {
		var f InterleavedFrame
		err := f.Unmarshal(br)
		zzAssert(err == nil, "frame is read back")
		zzAssert(f.Channel == chs[i], "channel preserved")
		zzAssert(zzBytesEq(f.Payload, pls[i]), "payload preserved")
	}
	zzInputsUnmodified()
	zzCover("done", true)
	zzAssertMustFail(chs[0] == chs[1], "twin: both frames travel on the same channel")
}

// C04 (limits): readBytesLimited never consumes more than n bytes, returns
// the bytes up to and including the delimiter, and fails when the delimiter is
// not among the first n bytes.
func ZzC04ReadLimited() {
	P := zzParam("P", 6)
	data := zzBytes("data", 0, P)
	n := zzConcretize(zzIntIn("n", 1, P))
	cr := &zzChunkReader{data: data}
	br := bufio.NewReaderSize(cr, 16)
	out, err := readBytesLimited(br, '\n', n)
	// position of the first delimiter
	first := -1
	for i := P - 1; i >= 0; i-- {
		if i < len(data) && data[i] == '\n' {
			first = i
		}
	}
	if err == nil {
		zzAssert(first >= 0 && first < n, "success only when the delimiter is within the limit")
		zzAssert(len(out) == first+1, "returns the bytes up to and including the delimiter")
		zzAssert(len(out) <= n, "never returns more than n bytes")
		b, _ := br.ReadByte()
		if first+1 < len(data) {
			zzAssert(b == data[first+1], "the reader continues right after the delimiter")
		}
	} else {
		zzAssert(first < 0 || first >= n || first >= len(data), "fails only when no delimiter is within the limit")
	}
	zzCover("found", err == nil)
	zzCover("not found", err != nil)
}
