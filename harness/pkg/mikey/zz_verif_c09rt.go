package mikey

// C09 (MIKEY, value level): every well-formed message value - 0..2 crypto
// session entries, any sequence of up to NP payloads of the four kinds, KEMAC
// with 1..2 key-data sub-payloads (with or without SPI), SP with 0..2 policy
// parameters - marshals to bytes that parse back to an equal value, and
// marshalling is a pure function of the value (same bytes twice, value untouched).
func zzSubPayload(rich bool) *SubPayloadKeyData {
	if !rich {
		return &SubPayloadKeyData{Type: SubPayloadKeyDataTypeTEK, KeyData: zzBytes("key", 1, 1)}
	}
	sp := &SubPayloadKeyData{Type: SubPayloadKeyDataTypeTEK, KeyData: zzBytes("key", 0, zzParam("KL", 3))}
	if zzBool("kvspi") {
		sp.KV = SubPayloadKeyDataKVSPI
		sp.SPI = zzBytes("spi", 0, 2)
	}
	return sp
}

// rich: every length / count of the payload is symbolic; lean: same kinds,
// contents symbolic, but fixed small sizes (keeps two-payload messages tractable)
func zzPayload(rich bool) Payload {
	switch zzConcretize(zzIntIn("kind", 0, 3)) {
	case 0:
		return &PayloadT{TSValue: zzU64("ts")}
	case 1:
		if !rich {
			return &PayloadRAND{Data: zzBytes("rand", 16, 16)}
		}
		return &PayloadRAND{Data: zzBytes("rand", 16, 17)}
	case 2:
		sp := &PayloadSP{PolicyNo: zzU8("polno")}
		np := 1
		if rich {
			np = zzConcretize(zzIntIn("nparams", 0, 2))
		}
		for i := 0; i < np; i++ {
			v := zzBytes("pvalue", 1, 1)
			if rich {
				v = zzBytes("pvalue", 0, 2)
			}
			sp.PolicyParams = append(sp.PolicyParams, PayloadSPPolicyParam{Type: PayloadSPPolicyParamType(zzU8("ptype")), Value: v})
		}
		return sp
	default:
		k := &PayloadKEMAC{}
		ns := 1
		if rich {
			ns = zzConcretize(zzIntIn("nsub", 1, 2))
		}
		for i := 0; i < ns; i++ {
			k.SubPayloads = append(k.SubPayloads, zzSubPayload(rich))
		}
		return k
	}
}

func zzSamePayload(a, b Payload) bool {
	switch x := a.(type) {
	case *PayloadT:
		y, ok := b.(*PayloadT)
		return ok && zzAnd(x.TSType == y.TSType, x.TSValue == y.TSValue)
	case *PayloadRAND:
		y, ok := b.(*PayloadRAND)
		return ok && zzBytesEq(x.Data, y.Data)
	case *PayloadSP:
		y, ok := b.(*PayloadSP)
		if !ok || len(x.PolicyParams) != len(y.PolicyParams) {
			return false
		}
		r := zzAnd(x.PolicyNo == y.PolicyNo, x.ProtType == y.ProtType)
		for i := range x.PolicyParams {
			r = zzAnd(r, zzAnd(x.PolicyParams[i].Type == y.PolicyParams[i].Type, zzBytesEq(x.PolicyParams[i].Value, y.PolicyParams[i].Value)))
		}
		return r
	case *PayloadKEMAC:
		y, ok := b.(*PayloadKEMAC)
		if !ok || len(x.SubPayloads) != len(y.SubPayloads) {
			return false
		}
		r := zzAnd(x.EncrAlg == y.EncrAlg, x.MacAlg == y.MacAlg)
		for i := range x.SubPayloads {
			s, t := x.SubPayloads[i], y.SubPayloads[i]
			r = zzAnd(r, zzAnd(s.Type == t.Type, s.KV == t.KV))
			r = zzAnd(r, zzAnd(zzBytesEq(s.KeyData, t.KeyData), zzBytesEq(s.SPI, t.SPI)))
		}
		return r
	}
	return false
}

func ZzC09MikeyRT() {
	m := Message{Header: Header{Version: 1, CSBID: zzU32("csbid")}}
	ncs := zzConcretize(zzIntIn("ncs", 0, 2))
	for i := 0; i < ncs; i++ {
		m.Header.CSIDMapInfo = append(m.Header.CSIDMapInfo, SRTPIDEntry{PolicyNo: zzU8("pol"), SSRC: zzU32("ssrc"), ROC: zzU32("roc")})
	}
	np := zzConcretize(zzIntIn("npayloads", 0, zzParam("NP", 2)))
	richAt := zzParam("RICHAT", 0)
	for i := 0; i < np; i++ {
		m.Payloads = append(m.Payloads, zzPayload(i == richAt))
	}
	b, err := m.Marshal()
	zzAssert(err == nil, "well-formed message marshals")
	var m2 Message
	err = m2.Unmarshal(b)
	zzAssert(err == nil, "marshalled message parses")
	if err == nil {
		h, h2 := m.Header, m2.Header
		zzAssert(zzAnd(h.Version == h2.Version, zzAnd(h.CSBID == h2.CSBID, h.DataType == h2.DataType)), "header preserved")
		zzAssert(len(h.CSIDMapInfo) == len(h2.CSIDMapInfo), "same number of crypto sessions")
		if len(h.CSIDMapInfo) == len(h2.CSIDMapInfo) {
			for i := range h.CSIDMapInfo {
				zzAssert(h.CSIDMapInfo[i] == h2.CSIDMapInfo[i], "crypto session entry (policy, SSRC, ROC) preserved")
			}
		}
		zzAssert(len(m.Payloads) == len(m2.Payloads), "same number of payloads")
		if len(m.Payloads) == len(m2.Payloads) {
			for i := range m.Payloads {
				zzAssert(zzSamePayload(m.Payloads[i], m2.Payloads[i]), "payload preserved (kind, fields, sub-payloads)")
			}
		}
	}
	b2, err2 := m.Marshal()
	zzAssert(err2 == nil, "marshals again")
	zzAssert(zzBytesEq(b, b2), "marshalling is a pure function of the value")
	zzInputsUnmodified()
	zzCover("all payloads", np == zzParam("NP", 2))
	zzCover("crypto sessions", ncs == 2)
	zzAssertMustFail(len(b) == 10, "twin: every message is a bare 10-byte header")
}
