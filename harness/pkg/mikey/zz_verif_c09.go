package mikey

// C09 (MIKEY): parsing is total on every byte string up to P bytes (no panic,
// value or error), and an accepted message re-marshals to a form that parses
// back to the same bytes (marshal/unmarshal are inverse on the accepted set).
func ZzC09MikeyTotal() {
	P := zzParam("P", 20)
	buf := zzBytes("buf", 0, P)
	var m Message
	err := m.Unmarshal(buf)
	if err == nil {
		b2, err2 := m.Marshal()
		if err2 == nil {
			var m2 Message
			err3 := m2.Unmarshal(b2)
			zzAssert(err3 == nil, "marshalled form of an accepted message parses")
			if err3 == nil {
				zzAssert(len(m2.Payloads) == len(m.Payloads), "same number of payloads after the round trip")
				b3, err4 := m2.Marshal()
				zzAssert(err4 == nil, "re-parsed message marshals")
				if err4 == nil {
					zzAssert(zzBytesEq(b2, b3), "marshal(unmarshal(marshal(m))) == marshal(m)")
				}
			}
			zzCover("accepted and re-marshalled", true)
		}
	}
	zzCover("rejected", err != nil)
	zzInputsUnmodified()
}
