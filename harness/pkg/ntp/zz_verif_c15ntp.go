package ntp

import "time"

// NTP fixed-point encoding and decoding are mutually inverse to within a
// nanosecond, for every instant of NTP era 0 after 1970 (until 2036-02-07).
func ZzC15NTPRoundTrip() {
	sec := zzI64("sec")
	nsec := zzI64("nsec")
	zzAssume(zzAnd(sec >= 0, sec < 2085978496))
	zzAssume(zzAnd(nsec >= zzI64p("NLO", 0), nsec < zzI64p("NHI", 1000000000)))
	t := time.Unix(sec, nsec)
	v := Encode(t)
	zzAssert(v>>32 == uint64(sec)+2208988800, "seconds field = seconds since 1900")
	back := Decode(v)
	bs, bn := back.Unix(), int64(back.Nanosecond())
	d := (bs-sec)*1000000000 + (bn - nsec)
	zzAssert(d >= -1, "Decode(Encode(t)) not more than 1 ns early")
	zzAssert(d <= 1, "Decode(Encode(t)) not more than 1 ns late")
	zzCover("exact", d == 0)
}

func zzI64p(name string, def int64) int64 { return int64(zzParam(name, int(def))) }
