package ringbuffer

import "sync"

// C16: one-step refinement of a bounded FIFO from an arbitrary valid pre-state.

type zzModel struct {
	size   int
	rd     uint64
	n      int
	ids    []int // queue contents, oldest first (len n)
	closed bool
}

// zzState builds an arbitrary RingBuffer satisfying the representation
// invariant: occupied slots are exactly rd..rd+n-1 (mod size), writeIndex =
// rd+n mod size, closed => empty.
func zzState() (*RingBuffer, *zzModel) {
	size := zzParam("SIZE", 4)
	rd := zzIntIn("rd", 0, size-1)
	n := zzIntIn("n", 0, size)
	rd = zzConcretize(rd)
	n = zzConcretize(n)
	closed := zzBool("closed")
	if closed {
		zzAssume(n == 0)
	}
	r := &RingBuffer{size: uint64(size), buffer: make([]any, size)}
	r.cond = sync.NewCond(&r.mutex)
	r.readIndex = uint64(rd)
	r.writeIndex = uint64((rd + n) % size)
	r.closed = closed
	m := &zzModel{size: size, rd: uint64(rd), n: n, closed: closed}
	for k := 0; k < n; k++ {
		id := zzInt("item")
		m.ids = append(m.ids, id)
		r.buffer[(rd+k)%size] = id
	}
	return r, m
}

func zzCheckInv(r *RingBuffer, m *zzModel, what string) {
	zzAssert(r.size == uint64(m.size), what+": size unchanged")
	zzAssert(r.readIndex == m.rd, what+": readIndex")
	zzAssert(r.writeIndex == (m.rd+uint64(m.n))%uint64(m.size), what+": writeIndex = readIndex+n")
	zzAssert(r.closed == m.closed, what+": closed flag")
	for i := 0; i < m.size; i++ {
		k := (i - int(m.rd) + m.size) % m.size
		if k < m.n {
			zzAssert(r.buffer[i] != nil, what+": occupied slot is occupied")
			v, ok := r.buffer[i].(int)
			zzAssert(ok, what+": slot type")
			zzAssert(v == m.ids[k], what+": FIFO order of contents")
		} else {
			zzAssert(r.buffer[i] == nil, what+": free slot is free")
		}
	}
	zzAssert(!zzLockHeld(&r.mutex), what+": mutex released on return")
}

func ZzC16Push() {
	r, m := zzState()
	x := zzInt("x")
	ok := r.Push(x)
	zzAssert(ok == (m.n < m.size), "push: refused iff full, and told to the caller")
	if ok {
		m.ids = append(m.ids, x)
		m.n++
	}
	zzCheckInv(r, m, "push")
	zzCover("push accepted", ok)
	zzCover("push refused", !ok)
	zzAssertMustFail(ok, "twin: push always accepted")
}

func ZzC16Pull() {
	r, m := zzState()
	v, ok := r.Pull() // blocks (path ends) iff empty and not closed
	if m.n > 0 {
		zzAssert(ok, "pull: item available => returned")
		iv, isInt := v.(int)
		zzAssert(isInt, "pull: type")
		zzAssert(iv == m.ids[0], "pull: returns the oldest item")
		m.ids = m.ids[1:]
		m.n--
		m.rd = (m.rd + 1) % uint64(m.size)
	} else {
		zzAssert(m.closed, "pull: returns without item only when closed")
		zzAssert(!ok, "pull: closed => false")
		zzAssert(v == nil, "pull: closed => nil")
	}
	zzCheckInv(r, m, "pull")
	zzCover("pull item", ok)
	zzCover("pull closed", !ok)
	zzAssertMustFail(ok, "twin: pull always returns an item")
}

func ZzC16Close() {
	r, m := zzState()
	r.Close()
	m.closed = true
	m.n = 0
	m.ids = nil
	// Close discards pending items; indexes are left as they are, so the
	// model's read index follows the write index only when it was empty.
	zzAssert(r.closed, "close: closed")
	for i := 0; i < m.size; i++ {
		zzAssert(r.buffer[i] == nil, "close: all slots emptied")
	}
	zzAssert(!zzLockHeld(&r.mutex), "close: mutex released")
	v, ok := r.Pull()
	zzAssert(!ok, "close: Pull returns false afterwards")
	zzAssert(v == nil, "close: Pull returns nil afterwards")
	ok2 := r.Push(1)
	_ = ok2
	zzCover("closed", true)
}

func ZzC16New() {
	size := zzU64("size")
	// sizes above 4096 are outside the claim: New(1<<63) passes the power-of-two
	// test and then panics inside make() (no real configuration gets there:
	// Client/Server.Start validate WriteQueueSize, see C18)
	zzAssume(size <= 4096)
	r, err := New(size)
	pow2 := size&(size-1) == 0
	zzAssert((err == nil) == pow2, "new: accepts exactly powers of two (and zero)")
	if err == nil {
		zzAssert(r != nil, "new: non-nil")
	}
	zzCover("accepted", err == nil)
	zzCover("rejected", err != nil)
}

// wake-up: a consumer blocked in Pull on an empty, open queue is woken by a
// push and by a close, from every read position (natively checked with a real
// goroutine; in the engine: the operation must broadcast on the condition variable).
func ZzC16Wake() {
	r, m := zzState()
	zzAssume(m.n == 0)
	zzAssume(!m.closed)
	x := zzInt("x")
	woke := zzWakes(func() { r.Pull() }, func() { r.Push(x) })
	zzAssert(woke, "a consumer waiting on an empty queue is woken by a push")
	r2, m2 := zzState()
	zzAssume(m2.n == 0)
	zzAssume(!m2.closed)
	woke2 := zzWakes(func() { r2.Pull() }, func() { r2.Close() })
	zzAssert(woke2, "a consumer waiting on an empty queue is woken by a close")
	zzCover("done", true)
}

// C16 (Reset): from any state - including a closed ring that accepted late
// pushes after Close (Push does not look at the closed flag) - Reset gives an
// empty, open queue: every slot free, a full capacity of pushes is accepted and
// the next one refused, and Pull hands out exactly those items in order.
func ZzC16Reset() {
	r, m := zzState()
	if m.closed {
		late := zzConcretize(zzIntIn("latePushes", 0, m.size))
		for i := 0; i < late; i++ {
			zzAssert(r.Push(zzInt("late")), "push after close is accepted while there is room")
		}
	}
	r.Reset()
	zzAssert(!zzLockHeld(&r.mutex), "reset: mutex released on return")
	for i := 0; i < m.size; i++ {
		zzAssert(r.Push(1000+i), "after reset: the queue accepts its full capacity")
	}
	zzAssert(!r.Push(-1), "after reset: refused exactly at capacity")
	for i := 0; i < m.size; i++ {
		v, ok := r.Pull()
		zzAssert(ok, "after reset: pull succeeds on a non-empty open queue")
		vi, isInt := v.(int)
		zzAssert(isInt && vi == 1000+i, "after reset: items come out in acceptance order, nothing stale")
	}
	zzCover("was closed", m.closed)
	zzCover("was open", !m.closed)
}
