package asyncprocessor

// ZzDrain runs the queued callbacks in order, like runInner but without
// blocking on an empty queue; returns how many ran and the first error.
func (w *Processor) ZzDrain() (int, error) {
	n := 0
	for {
		tmp, ok := w.buffer.ZzTryPull()
		if !ok {
			return n, nil
		}
		n++
		err := tmp.(func() error)()
		if err != nil {
			return n, err
		}
	}
}
