package ringbuffer

// ZzTryPull is a non-blocking Pull used by verification harnesses of other
// packages to drain the queue sequentially (overlay only, never in the repository).
func (r *RingBuffer) ZzTryPull() (any, bool) {
	r.mutex.Lock()
	defer r.mutex.Unlock()
	data := r.buffer[r.readIndex]
	if data == nil {
		return nil, false
	}
	r.buffer[r.readIndex] = nil
	r.readIndex = (r.readIndex + 1) % r.size
	return data, true
}
