#!/usr/bin/env python3
"""Regenerates MANIFEST.json from checks.py (claimed properties) and NA (not applicable)."""
import json, os, sys
sys.path.insert(0, os.path.dirname(os.path.abspath(__file__)))
from checks import PROPS, NOT_APPLICABLE

TECH = "solver-based checking of the real code: bounded symbolic execution of the package's Go SSA (go/ssa, regenerated from /repo on every run) into SMT-LIB2, every assertion decided by an SMT solver (z3 5.1.0, cvc5 1.0.3 with bit-vectors-as-integers for multiply/divide kernels); counterexamples and twin witnesses replayed natively with go test -overlay"
checks = []
for pid in sorted(PROPS):
    sp = PROPS[pid]
    if not sp.get("claimed", True):
        continue
    checks.append({
        "property_id": pid,
        "quick_cmd": "./check %s --tier quick" % pid,
        "thorough_cmd": "./check %s --tier thorough" % pid,
        "evidence_file": "/verif/evidence/%s.json" % pid,
        "replay_cmd_template": "./check %s --replay {path}" % pid,
        "engine": "gosym",
        "level_claimed": {"category": "model_checking", "text": sp["level_text"], "design_ref": sp.get("design_ref", "DESIGN.md §6")},
        "level_note": sp["level_note"],
        "technique": sp.get("technique", TECH),
    })
m = {
    "version": 1,
    "setup_cmd": "cd /verif/engine && PATH=/opt/veriftools/go1.26.8/bin:$PATH GOTOOLCHAIN=local GOFLAGS=-mod=mod GOPROXY=off go build -o /verif/bin/gosym .",
    "hooks": {
        "guard": "verif",
        "enable": "no source hooks: harnesses enter /repo's packages as go/packages overlays (engine) and go test -overlay (replay); /repo is never modified by a check",
        "baseline_off_cmd": json.load(open("/root/.vp/BASELINE.json"))["cmd"],
        "source_commits": [],
        "add_only": True,
    },
    "engines": [{"name": "gosym", "path": "/verif/engine", "serves_properties": [c["property_id"] for c in checks],
                 "kind_free_text": "path-forking symbolic interpreter over go/ssa of /repo's current working tree; terms to SMT-LIB2; z3 5.1.0 (z3-new -in) and cvc5 1.0.3 (--incremental, --solve-bv-as-int=sum) as deciding back ends, persistent solver processes with push/pop; every counterexample and, on every run, witnesses of deliberately false twin assertions replayed natively"}],
    "checks": checks,
    "not_applicable": [{"property_id": k, "reason": v} for k, v in sorted(NOT_APPLICABLE.items()) if k not in [c["property_id"] for c in checks]],
    "notes": "See DESIGN.md. Exit codes of ./check: 0 all obligations discharged within the registered bounds; 1 VIOLATION (replays natively, not a listed known finding); 2 inconclusive (never reported as a violation).",
}
json.dump(m, open(os.path.join(os.path.dirname(os.path.abspath(__file__)), "MANIFEST.json"), "w"), indent=1)
print("claimed:", [c["property_id"] for c in checks])
print("n/a:", [x["property_id"] for x in m["not_applicable"]])
