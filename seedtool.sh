#!/bin/bash
# seedtool.sh verify <seed dir> <pkg dir rel>   : confirm a seeded change in a scratch worktree
# seedtool.sh run <seed dir> <check id> [--only x] : apply to /repo, run check, revert
# seedtool.sh runwt <seed dir> <check id> [--only x] : same against a scratch worktree (VERIF_REPO)
set -u
export PATH=/opt/veriftools/go1.26.8/bin:$PATH GOTOOLCHAIN=local GOPROXY=off
cmd=$1; dir=$2
case $cmd in
verify)
  pkg=$3
  wt=/tmp/wt/verify_$$
  git -C /repo worktree add -q --detach $wt HEAD || exit 3
  cd $wt
  cp $dir/zz_demo_test.go $pkg/zz_demo_test.go
  echo "== demo without change:"; go test -count=1 -run 'Demo|Seed|ZZ|Zz' ./$pkg/ 2>&1 | tail -3
  git apply $dir/patch.diff || { echo "PATCH DOES NOT APPLY"; }
  echo "== build:"; go build ./$pkg/ 2>&1 | tail -3
  echo "== demo with change:"; go test -count=1 -run 'Demo|Seed|ZZ|Zz' ./$pkg/ 2>&1 | tail -5
  rm $pkg/zz_demo_test.go
  echo "== existing tests with change:"; go test -count=1 ./$pkg/ 2>&1 | tail -3
  cd /; git -C /repo worktree remove --force $wt
  ;;
run)
  shift 2
  git -C /repo apply $dir/patch.diff || exit 3
  (cd /verif && ./check "$@" 2>&1 | grep -E "VIOLATION|INCONCLUSIVE|all obligations|KNOWN" | head -8)
  git -C /repo checkout -- .
  ;;
runwt)
  # like run, but against a scratch worktree (VERIF_REPO) so that /repo stays untouched
  shift 2
  wt=/tmp/wt/seedrepo_$$
  git -C /repo worktree add -q --detach $wt HEAD || exit 3
  git -C $wt apply $dir/patch.diff || { git -C /repo worktree remove --force $wt; exit 3; }
  (cd /verif && VERIF_REPO=$wt ./check "$@" 2>&1 | grep -E "VIOLATION|INCONCLUSIVE|all obligations|KNOWN" | head -8)
  git -C /repo worktree remove --force $wt
  ;;
esac
