#!/bin/bash
# dev helper: g.sh <pkg> <harnessdir> <entry> [gosym flags...]   -> summary of /tmp/g_$entry.json
export PATH=/opt/veriftools/go1.26.8/bin:$PATH GOTOOLCHAIN=local GOPROXY=off
pkg=$1; h=$2; e=$3; shift 3
out=/tmp/g_${e//,/_}_$$.json
timeout ${T:-300} /verif/bin/gosym -deadline ${DL:-280} -repo ${VERIF_REPO:-/repo} -pkg $pkg -harness /verif/harness/$h -prelude /verif/harness/prelude.go.tmpl -entry $e -out $out $GX "$@" 2>&1 | tail -15
python3 - $out <<'PY'
import json,sys
try:
    rs=json.load(open(sys.argv[1]))
except Exception as ex:
    print("no result", ex); sys.exit()
for r in rs:
    print(r['entry'], r.get('verdict'), 'paths',r.get('paths'),'wall',r.get('wall_s'),'q',r.get('queries'),'ends',r.get('ends'))
    for x in (r.get('reasons') or [])[:10]: print('  reason:',x[:300])
    print('  covers',r.get('covers'))
    for v in (r.get('violations') or [])[:4]:
        print('  VIOL',v['kind'],v['tag'],v['pos']); print('   ', json.dumps(v['vector'])[:1200])
PY
rm -f $out
